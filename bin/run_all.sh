#!/bin/sh
# runs every check's quick (or given) tier once; prints one line per check
TIER=${1:-quick}
HERE="$(cd "$(dirname "$0")/.." && pwd)"
cd "$HERE"
rc_all=0
for i in 01 02 03 04 05 06 07 08 09 10 11 12 13 14 15 16 17 18 19 20; do
  out=$(bin/check C$i --tier $TIER 2>&1); rc=$?
  echo "$out" | grep -E 'VIOLATION|KNOWN-FINDING|HARNESS|INCONCLUSIVE' | cut -c1-300
  echo "$out" | tail -1 | sed "s/^/rc=$rc /"
  [ $rc -ne 0 ] && rc_all=1
done
exit $rc_all
