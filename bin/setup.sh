#!/bin/sh
# Offline, idempotent dependency bootstrap. /venv is never modified: anything
# missing is installed from the local wheelhouse into /verif/.deps.
HERE="$(cd "$(dirname "$0")/.." && pwd)"
PY=/venv/bin/python
WH=/opt/veriftools/wheels
mkdir -p "$HERE/.deps" "$HERE/.work" "$HERE/evidence"
export PYTHONPATH="$HERE/.deps"
need=""
$PY -c "import hypothesis" 2>/dev/null || need="$need hypothesis"
$PY -c "import jsonschema, referencing" 2>/dev/null || need="$need jsonschema"
$PY -c "import atheris" 2>/dev/null || need="$need atheris"
if [ -n "$need" ]; then
  PIP_NO_INDEX=1 $PY -m pip install --quiet --no-index --find-links "$WH" --target "$HERE/.deps" $need || exit 1
fi
$PY -c "import hypothesis, jsonschema, referencing, numpy" || exit 1
# fidelity self-test of the simulated primitives (exhaustive schedules of 17 tiny programs + real threads), ~2 s
if [ "$1" = "--selftest" ]; then
  PYTHONPATH="$HERE:$HERE/.deps" $PY -m vf.sim.selftest >/dev/null || { echo "simulation self-test failed"; exit 1; }
fi
exit 0
