#!/usr/bin/env python3
"""Regenerates MANIFEST.json from the table below (keeps it valid and consistent)."""
import json, os, sys
HERE = os.path.dirname(os.path.dirname(os.path.abspath(__file__)))

BASELINE_OFF = ("cd /repo && env -u BRIDGE_ENV_VERIF /venv/bin/python -m pytest -ra -q -p no:cacheprovider "
                "--timeout=900 --continue-on-collection-errors")

# id: (category, technique, engine, text, note, design_ref)
CHECKS = {}


def add(pid, cat, technique, engine, text, note, ref):
    CHECKS[pid] = (cat, technique, engine, text, note, ref)


add('C07', 'exploration', 'complete enumeration (three visiting orders) against an independent Law-77 formula scorer; line-level schedule enumeration of concurrent scorers', 'enumeration',
    'Every one of the 23 520 score cells plus the passed-out cells is evaluated on every run, in three different orders, and compared '
    'with a scorer written from the Laws; for a finite domain complete enumeration is the strongest '
    'generated-input search there is. Two concurrent scorers are run under every line-level schedule with <= 1 deviation.',
    'Trusts vf/model/score.py (formula, no repository tables) and name-based lookup of enum members.', '5/C07')
add('C15', 'exploration', 'complete enumeration of converter round trips and injectivity (three visiting orders, fresh string objects); line-level schedule enumeration of concurrent converters', 'enumeration',
    'All finite notation domains (52 cards, 52x52 order pairs, 38 calls, seats, vulnerabilities and spellings, '
    'all contracts x vulnerability x declarer) are enumerated completely on every run, the contract domain in three orders; pairs of concurrent converter calls on a freshly imported package are run under every line-level schedule with <= 1 deviation.',
    'Trusts the independent notation tables in vf/model and enum lookup by member name.', '5/C15')
add('C16', 'exploration', 'exhaustive range (walked twice) + Hypothesis integers up to 10**5000 against the WBF band table; oddness, monotonicity, two-score form',
    'enumeration+hypothesis',
    'Exhaustive over [-20000,20000] (quick) / [-200000,200000] (thorough) and over every value within 3 of a power of two up to 2**1100; beyond that generated integers of '
    'arbitrary magnitude, threshold neighbours, ordered pairs and the two-score form.',
    'Trusts vf/model/imps.py as a transcription of the WBF scale.', '5/C16')

add('C01', 'exploration', 'bounded-exhaustive + Hypothesis stateful/random walks against an independent auction model',
    'hypothesis-inprocess',
    'All legal call sequences to depth 3/4 are enumerated and random walks reach the 319-call auction; at every '
    'prefix all 38 calls are offered (illegal ones live, legal ones on deep copies) and every observable is '
    'compared with a model written from the Laws; one auction in six runs on an object re-initialised after another auction. Sampling beyond depth 4: no counterexample among N walks.',
    'Trusts vf/model/auction.py; deepcopy of BiddingPhase yields an independent equal object.', '5/C01')
add('C02', 'exploration', 'shape-exhaustive + Hypothesis walks: rotation and exact end against the model',
    'hypothesis-inprocess',
    'Every auction shape over {Pass, cheapest bid, same-strain bid, X, XX} to 8/11 calls from each dealer is '
    'enumerated, plus all legal sequences to depth 3/4 and random walks; turn, per-seat lists, has_done and the '
    'FINISHED/ONGOING value are compared at every prefix, and all 38 calls are offered after the end.',
    'Trusts vf/model/auction.py.', '5/C02')
add('C03', 'exploration', 'shape-exhaustive + Hypothesis complete auctions: contract/declarer against the model',
    'hypothesis-inprocess',
    'Complete auctions with small strain palettes (both partners / both sides naming the final strain, superseded '
    'doubles) are generated and shape-enumerated; contract() is compared at every prefix and at the end.',
    'Trusts vf/model/auction.py; doubling compared as status, not raw flags.', '5/C03')

add('C04', 'exploration', 'Hypothesis-generated boards and single tricks against an independent law-of-play model',
    'hypothesis-inprocess',
    'Whole boards (generated deal, contract, 52 plays incl. revokes) are compared with the model after every card - the table manager and, on half of the boards, four single-seat observers - '
    'and single tricks on the hand-less phase cover every winner position x how-won class.',
    'Trusts vf/model/play.py.', '5/C04')
add('C05', 'fault_enumeration', 'fault injection at generated positions of generated boards; snapshot-unchanged + conservation oracle',
    'hypothesis-inprocess',
    'Every kind of inadmissible play (out of turn, card of another seat, card already played, after card 52) is '
    'injected at generated positions on the table manager and on all four observers; refusal and unchanged state are '
    'checked against deep snapshots, conservation after every accepted play.',
    'Observers are only required to refuse what they can see (own hand, disclosed dummy, turn).', '5/C05')
add('C06', 'exploration', 'Hypothesis hands x led card + reached board states against an independent follow-suit set',
    'hypothesis-inprocess',
    'Static hands of 1-13 cards x any led card, and every state of generated boards (every seat on the table manager, own and dummy hand on all '
    'observers), also after refused plays and after deep copies of every phase were played ahead and discarded, plus RandomPlay under seeds drawn by Hypothesis and one RandomPlay object serving concurrent decisions under every line-level schedule with <= 1 deviation.',
    'RandomPlay uses the global RNG, seeded from drawn integers.', '5/C06')
add('C11', 'exploration', 'differential between five replicas in process; bundled clients vs server log in simulated sessions',
    'hypothesis-inprocess+sim-sessions',
    'Five replicas of the play state machine are compared after every card of generated boards, with refused actions offered to all of them in between; simulated sessions '
    'compare each bundled client\'s view with the server\'s log; a few bundled-client sessions per run are repeated on real threads and real loopback sockets (same oracle, byte-identical log).',
    'Simulation kernel fidelity (DESIGN.md section 4).', '5/C11')
add('C14', 'exploration', 'Hypothesis deals through four encoder/decoder round trips (decode - modify - decode again) + independent canonical PBN renderer; line-level schedule enumeration of concurrent dealers and codecs',
    'hypothesis-inprocess',
    'Generated full and partial deals x 4 first seats x 8 numpy dtypes; each encoding decoded back and the PBN text '
    'compared with an independent renderer; deal objects obtained by constructor, rebound attributes, in-place change, copy, deepcopy and pickle; every decoder called again after its first result was modified; random dealer under drawn seeds; pairs of concurrent calls on a freshly imported package under every line-level schedule with <= 1 deviation.',
    'Trusts vf/model/pbn.py.', '5/C14')

add('C12', 'exploration', 'Hypothesis documents: writer -> json.loads + jsonschema + parser round trip (field-by-field, value-object types), StringIO and real files in five encodings, failed writes in between; atheris on the same test (thorough)',
    'hypothesis-inprocess+atheris',
    'Generated lists of 0-8 board results (any Unicode names, every contract form, arbitrary call lists, 0-13 tricks, '
    'optional dda) are written, validated against the two shipped schemas with jsonschema, parsed back and compared '
    'field by field including the types of the value objects, and re-read as board settings.',
    'Trusts jsonschema Draft7 and the shipped schema files as the published schema.', '5/C12')
add('C17', 'exploration', 'Hypothesis boards x generated file layouts rendered by an independent PBN renderer -> parser round trip; atheris on the same tests (thorough)',
    'hypothesis-inprocess+atheris',
    'JSON: writer -> parser round trip incl. schema validation. PBN: an independent renderer produces admissible '
    'import files over the whole layout space named by the property; parsed from StringIO and from a text file, the boards of the first read being played on before the second.',
    'Trusts vf/model/pbn.py as a renderer of admissible PBN 2.1 import files.', '5/C17')
add('C18', 'exploration', 'Hypothesis result sequences (names up to the exact line limit): PbnWriter -> PbnParser round trip, line-length invariant; atheris on the same tests (thorough)',
    'hypothesis-inprocess+atheris',
    'Generated sequences of 1-6 board results through one PbnWriter; parse_all / parse_board_settings must return the '
    'games one by one with the 15 mandatory tags and written values (decoded deals are used before the second read); every line <= 255 characters.',
    'Names limited to the property alphabet and to lengths that fit on a line.', '5/C18')

add('C19', 'exploration', 'enumerated + Hypothesis builder->parser round trips; scripted-socket framing with generated chunking and end-of-stream faults',
    'hypothesis-inprocess+sim-sessions+atheris',
    'All calls x seats x case variants x alert suffixes and all cards x seats x notations x case variants are '
    'enumerated; hands, case masks, message streams, chunkings and end-of-stream positions are generated; server-built '
    'headers and Teams lines come from simulated sessions, and in simulated sessions with generated auctions, plays and alerts every line the server sends is read with the bundled client\'s own parsers. A deterministic spin detector (1000 empty reads) replaces '
    'any wall-clock timeout; a quarter of the streams are also delivered over a real socketpair by a sender thread.',
    'Alert suffix limited to the documented form; scripted socket models recv() returning b"" at end-of-stream.', '5/C19')

SIM_NOTE = ('Trusts the simulation kernel (vf/sim): CPython semantics of Event/Queue/Barrier, lossless ordered in-memory byte '
            'streams, context switches only at synchronisation operations (partial-order argument, DESIGN.md 4.3); '
            'generated schedules are a sample of the schedule space.')
add('C08', 'exploration', 'simulated sessions under generated schedules; model-computed expected log; metamorphic two-schedule byte equality',
    'sim-sessions',
    'The real Server, its seat threads and four scripted reference clients run under a schedule-owning kernel; the '
    'written log is compared field by field with the document computed by the independent models, and a second '
    'schedule must give a byte-identical file; some sessions are repeated on real threads and real loopback sockets (same oracles, byte-identical log and transcripts).', SIM_NOTE, '5/C08')
add('C09', 'exploration', 'schedule-owning simulation: generated schedules (preemption lists, PCT, stalls, random, eager timeouts) + complete <=1-deviation schedule sets, with deadlock detection',
    'sim-sessions',
    'Thread schedules are generated inputs; a lost wake-up shows up deterministically as "no task enabled while one is '
    'unfinished". Thousands of sessions x schedules per run incl. stalls of every thread and second sessions hosted by the same Server object, plus the complete set of schedules with at most one deviation from the default policy for fixed small sessions. Found and fixed the '
    'stale-flag barrier deadlock (confirmed on real threads).', SIM_NOTE, '5/C09')
add('C10', 'exploration', 'simulated sessions: complete per-connection byte streams vs model-computed event sequences',
    'sim-sessions',
    'Every line the server sends on each of the four connections is compared, as an event sequence read with '
    'tolerant readers, with the exact sequence the script entitles that seat to; a global step clock orders the '
    'disclosure of dummy against the opening lead. A fifth of the sessions have a second table (own Server, clients, boards, log) running concurrently in the same process, judged by the same oracles; boards that leave the deal to the table manager keep their configured header.', SIM_NOTE, '5/C10')
add('C13', 'fault_enumeration', 'fault injection into simulated sessions at generated abort points + real SIGINT to a real server process; parse-back oracle',
    'sim-sessions',
    'One offending action of each of 10 kinds (or an operator interrupt) is injected at a generated board, phase and '
    'position under a generated schedule; a real SIGINT is sent to a real table-manager process at generated points; the output file must parse and hold exactly the finished boards.',
    SIM_NOTE, '5/C13')

add('C20', 'fault_enumeration', 'generated admission attempt lists (valid + 3 kinds of invalid) in sequential and concurrent arrival under generated schedules; seat-table model in accept order',
    'sim-sessions',
    'Every kind of inadmissible request is injected at generated positions of the arrival order, in every letter case, '
    'sequentially and concurrently; verdicts are decided by a seat-table model driven by the order in which the '
    'server accepted the connections; seated clients\' streams must be undisturbed and the first board must start.',
    SIM_NOTE, '5/C20')

NOT_APPLICABLE = []

ENGINES = [
    {'name': 'enumeration', 'path': 'vf/common/runner.py', 'serves_properties': ['C07', 'C14', 'C15', 'C16'],
     'kind_free_text': 'complete enumeration of finite domains (several visiting orders) and of line-level schedules of concurrent library calls (vf/props/_concurrent.py), sharded over 16 processes'},
    {'name': 'sim-sessions', 'path': 'vf/sim/',
     'serves_properties': ['C08', 'C09', 'C10', 'C11', 'C13', 'C19', 'C20'],
     'kind_free_text': 'deterministic schedule-owning kernel (managed OS threads, one runnable at a time), simulated '
                       'Event/Queue/Barrier/Lock/Condition/socket/time installed by monkey-patching bridge_env.network_bridge '
                       'from the harness; schedules, scripts and faults are Hypothesis-generated inputs'},
    {'name': 'hypothesis-inprocess', 'path': 'vf/common/core.py',
     'serves_properties': ['C01', 'C02', 'C03', 'C04', 'C05', 'C06', 'C12', 'C14', 'C17', 'C18', 'C19'],
     'kind_free_text': 'Hypothesis 6.168 (given + RuleBasedStateMachine), seeded from VERIF_SEED, 16 shard processes, '
                       'time-bounded shrinking, oracles = independent reference models in vf/model'},
    {'name': 'atheris', 'path': 'vf/common/fuzz.py', 'serves_properties': ['C12', 'C17', 'C18', 'C19'],
     'kind_free_text': 'atheris 3.1 / libFuzzer coverage-guided campaigns (thorough tier) driving the same Hypothesis tests through '
                       'fuzz_one_input with bridge_env instrumented; one subprocess per shard, oracle inside the target'},
]


def main():
    checks = []
    for pid in sorted(CHECKS):
        cat, tech, eng, text, note, ref = CHECKS[pid]
        checks.append({
            'property_id': pid,
            'quick_cmd': f'bin/check {pid} --tier quick',
            'thorough_cmd': f'bin/check {pid} --tier thorough',
            'evidence_file': f'evidence/{pid}.json',
            'replay_cmd_template': f'bin/check {pid} --replay {{path}}',
            'engine': eng,
            'level_claimed': {'category': cat, 'text': text, 'design_ref': f'DESIGN.md section {ref}'},
            'level_note': note,
            'technique': tech,
        })
    na = list(NOT_APPLICABLE)
    for i in range(1, 21):
        pid = f'C{i:02d}'
        if pid not in CHECKS and not any(x['property_id'] == pid for x in na):
            na.append({'property_id': pid, 'reason': 'check not built yet (designed in DESIGN.md section 5); '
                                                     'not claimed until its machinery is committed'})
    m = {
        'version': 1,
        'setup_cmd': 'sh bin/setup.sh --selftest',
        'hooks': {'guard': 'BRIDGE_ENV_VERIF',
                  'enable': 'no source hooks: the harness replaces module globals of bridge_env.network_bridge.server / '
                            '.socket_interface from outside (monkey-patching in the check process)',
                  'baseline_off_cmd': BASELINE_OFF, 'source_commits': [], 'add_only': True},
        'engines': ENGINES,
        'checks': checks,
        'not_applicable': na,
        'notes': 'All checks: bin/check CNN --tier quick|thorough; VERIF_SEED selects the seed; VERIF_REPO (default '
                 '/repo) selects the tree under test; exit 0/1/2 = held / VIOLATION / harness error or inconclusive.',
    }
    with open(os.path.join(HERE, 'MANIFEST.json'), 'w') as f:
        json.dump(m, f, indent=1)
        f.write('\n')


if __name__ == '__main__':
    main()
