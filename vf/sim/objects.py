"""Simulated synchronisation objects, clock and sockets with CPython/TCP-like semantics.
Every operation takes a scheduling point (Kernel.point) first and then executes atomically."""
from __future__ import annotations

import threading as _real_threading
from collections import deque

_KERNEL = None


def set_kernel(k):
    global _KERNEL
    _KERNEL = k


def K():
    return _KERNEL


def _sync(op, obj, **kw):
    k = _KERNEL
    if k is None:
        return False
    r = k.point(op, obj, **kw)
    k.sync_ops += 1
    if k.fault_hook is not None:
        k.fault_hook(k.current(), op, obj)      # may raise inside the calling task (fault injection)
    return r


class _Named:
    _count = 0

    def _mkname(self, kind):
        _Named._count += 1
        self.simname = f'{kind}#{_Named._count}'
        # building a primitive is not atomic (queue.Queue.__init__ is Python code that allocates locks and a deque): a managed
        # task that constructs one - e.g. through a defaultdict(Queue) miss at first use - can be overtaken while it does
        k = _KERNEL
        if k is not None and k.current() is not None:
            k.point('new', self.simname)


class _Token:
    __slots__ = ('released',)

    def __init__(self):
        self.released = False


class SimEvent(_Named):
    def __init__(self):
        self._mkname('Event')
        self._flag = False
        self._waiters = []

    def is_set(self):
        _sync('event.is_set', self.simname)
        return self._flag

    isSet = is_set

    def set(self):
        _sync('event.set', self.simname)
        self._flag = True
        for w in self._waiters:
            w.released = True
        self._waiters = []

    def clear(self):
        _sync('event.clear', self.simname)
        self._flag = False

    def wait(self, timeout=None):
        # CPython: under the condition lock, return at once if the flag is set, else block until notified;
        # a waiter that is already blocked when set() happens is released even if the flag is cleared right after.
        _sync('event.wait', self.simname)
        if self._flag:
            return True
        tok = _Token()
        self._waiters.append(tok)
        timed = _sync('event.wait(blocked)', self.simname, pred=lambda: tok.released,
                      timeout_ok=timeout is not None, yielding=timeout is not None)
        if timed and not tok.released:
            if tok in self._waiters:
                self._waiters.remove(tok)
            return self._flag
        return True


class SimQueue(_Named):
    def __init__(self, maxsize=0):
        self._mkname('Queue')
        self._q = deque()
        self.maxsize = maxsize
        self._unfinished = 0          # as queue.Queue: put() counts up, task_done() down, join() waits for zero

    def _full(self):
        return self.maxsize > 0 and len(self._q) >= self.maxsize

    def put(self, item, block=True, timeout=None):
        import queue as _q
        if not block:
            _sync('queue.put_nowait', self.simname)
            if self._full():
                raise _q.Full
            self._q.append(item)
            self._unfinished += 1
            return
        timed = _sync('queue.put', self.simname, pred=lambda: not self._full(),
                      timeout_ok=timeout is not None, yielding=timeout is not None)
        if timed and self._full():
            raise _q.Full
        self._q.append(item)
        self._unfinished += 1

    def put_nowait(self, item):
        return self.put(item, block=False)

    def get(self, block=True, timeout=None):
        import queue as _q
        if not block:
            _sync('queue.get_nowait', self.simname)
            if not self._q:
                raise _q.Empty
            return self._q.popleft()
        timed = _sync('queue.get', self.simname, pred=lambda: len(self._q) > 0,
                      timeout_ok=timeout is not None, yielding=timeout is not None)
        if timed and not self._q:
            raise _q.Empty
        return self._q.popleft()

    def get_nowait(self):
        return self.get(block=False)

    def empty(self):
        _sync('queue.empty', self.simname)
        return not self._q

    def full(self):
        _sync('queue.full', self.simname)
        return self._full()

    def qsize(self):
        _sync('queue.qsize', self.simname)
        return len(self._q)

    def task_done(self):
        _sync('queue.task_done', self.simname)
        if self._unfinished <= 0:
            raise ValueError('task_done() called too many times')
        self._unfinished -= 1

    def join(self):
        _sync('queue.join', self.simname, pred=lambda: self._unfinished == 0)


class SimBarrier(_Named):
    def __init__(self, parties, action=None, timeout=None):
        self._mkname('Barrier')
        self._parties = parties
        self._action = action
        self._timeout = timeout          # default timeout of wait(), as in threading.Barrier
        self._count = 0
        self._gen = 0
        self._broken = False

    @property
    def parties(self):
        return self._parties

    @property
    def n_waiting(self):
        return self._count

    @property
    def broken(self):
        return self._broken

    def wait(self, timeout=None):
        if timeout is None:
            timeout = self._timeout
        _sync('barrier.wait', self.simname)
        if self._broken:
            raise _real_threading.BrokenBarrierError
        idx = self._count
        self._count += 1
        gen = self._gen
        if self._count == self._parties:
            if self._action is not None:
                self._action()
            self._count = 0
            self._gen += 1
            return idx
        timed = _sync('barrier.wait(blocked)', self.simname, pred=lambda: self._gen != gen or self._broken,
                      timeout_ok=timeout is not None, yielding=timeout is not None)
        if self._gen == gen:
            # timeout or abort
            self._broken = True
            raise _real_threading.BrokenBarrierError
        return idx

    def abort(self):
        _sync('barrier.abort', self.simname)
        self._broken = True

    def reset(self):
        _sync('barrier.reset', self.simname)
        if self._count:
            self._broken = True
        self._count = 0
        self._gen += 1
        self._broken = False


class SimLock(_Named):
    def __init__(self):
        self._mkname('Lock')
        self._owner = None
        self._depth = 0
        self._reentrant = False

    def acquire(self, blocking=True, timeout=-1):
        k = K()
        me = k.current() if k else None
        if self._reentrant and self._owner is me and me is not None:
            self._depth += 1
            return True
        if not blocking:
            _sync('lock.try', self.simname)
            if self._owner is not None:
                return False
        else:
            timed = _sync('lock.acquire', self.simname, pred=lambda: self._owner is None,
                          timeout_ok=timeout is not None and timeout >= 0, yielding=False)
            if timed and self._owner is not None:
                return False
        self._owner = me if me is not None else 'unmanaged'
        self._depth = 1
        return True

    def release(self):
        _sync('lock.release', self.simname)
        if self._reentrant and self._depth > 1:
            self._depth -= 1
            return
        self._owner = None
        self._depth = 0

    def locked(self):
        return self._owner is not None

    __enter__ = acquire

    def __exit__(self, *a):
        self.release()


class SimRLock(SimLock):
    def __init__(self):
        super().__init__()
        self._reentrant = True


class SimCondition(_Named):
    def __init__(self, lock=None):
        self._mkname('Condition')
        self._lock = lock if lock is not None else SimRLock()
        self._waiters = []
        self.acquire = self._lock.acquire
        self.release = self._lock.release

    def __enter__(self):
        return self._lock.__enter__()

    def __exit__(self, *a):
        return self._lock.__exit__(*a)

    def wait(self, timeout=None):
        tok = _Token()
        self._waiters.append(tok)
        depth = self._lock._depth
        owner = self._lock._owner
        self._lock._owner, self._lock._depth = None, 0
        timed = _sync('condition.wait', self.simname, pred=lambda: tok.released,
                      timeout_ok=timeout is not None, yielding=timeout is not None)
        ok = tok.released
        if not ok and tok in self._waiters:
            self._waiters.remove(tok)
        _sync('condition.reacquire', self.simname, pred=lambda: self._lock._owner is None)
        self._lock._owner, self._lock._depth = owner, depth
        return ok

    def wait_for(self, predicate, timeout=None):
        r = predicate()
        while not r:
            if not self.wait(timeout) and timeout is not None:
                return predicate()
            r = predicate()
        return r

    def notify(self, n=1):
        _sync('condition.notify', self.simname)
        for tok in self._waiters[:n]:
            tok.released = True
        self._waiters = self._waiters[n:]

    def notify_all(self):
        self.notify(len(self._waiters))

    notifyAll = notify_all


class SimSemaphore(_Named):
    def __init__(self, value=1):
        self._mkname('Semaphore')
        self._value = value

    def acquire(self, blocking=True, timeout=None):
        if not blocking:
            _sync('semaphore.try', self.simname)
            if self._value <= 0:
                return False
        else:
            timed = _sync('semaphore.acquire', self.simname, pred=lambda: self._value > 0,
                          timeout_ok=timeout is not None, yielding=timeout is not None)
            if timed and self._value <= 0:
                return False
        self._value -= 1
        return True

    def release(self, n=1):
        _sync('semaphore.release', self.simname)
        self._value += n

    __enter__ = acquire

    def __exit__(self, *a):
        self.release()


class SimThread:
    """Stands in for threading.Thread where the server creates plain threads (the seat threads, a subclass defined at
    import time, are handled by the installer): start() makes the thread a managed task of the kernel."""
    _n = 0

    def __init__(self, group=None, target=None, name=None, args=(), kwargs=None, *, daemon=None):
        if isinstance(self, _real_threading.Thread):
            # `Thread.__init__(self, ...)` written out inside a subclass of the real Thread (the seat threads)
            _real_threading.Thread.__init__(self, group=group, target=target, name=name, args=args, kwargs=kwargs, daemon=daemon)
            return
        SimThread._n += 1
        self._target, self._args, self._kwargs = target, args, kwargs or {}
        self.name = name or f'Thread-sim-{SimThread._n}'
        self.daemon = bool(daemon)
        self._task = None

    def run(self):
        if self._target is not None:
            self._target(*self._args, **self._kwargs)

    def start(self):
        k = K()
        self._task = k.spawn(self.run, f'helper-{self.name}', required=False)
        k.point('thread.start', self._task.name)

    def join(self, timeout=None):
        t = self._task
        if t is None:
            return
        K().point('thread.join', t.name, pred=lambda: t.state == 'done', timeout_ok=timeout is not None, yielding=timeout is not None)

    def is_alive(self):
        t = self._task
        K().point('thread.is_alive', t.name if t else None)
        return t is not None and t.state != 'done'

    def setDaemon(self, d):
        self.daemon = d


# ---------------------------------------------------------------------------------------------
# real primitive objects met inside the simulation - instances of SUBCLASSES the library defines at import time (the
# installer can only replace names looked up at call time): their methods are routed to a lazily created simulated twin
# while a managed task calls them

def _twin(obj, make):
    t = obj.__dict__.get('_sim_twin')
    if t is None or t[0] is not K():
        t = (K(), make())
        obj.__dict__['_sim_twin'] = t
    return t[1]


def library_owned_primitives():
    """Real Queue / Event / Barrier objects that the LIBRARY created at import time and keeps reachable from its modules:
    module globals, class attributes, default values of parameters (also inside dicts, lists and tuples).  They were built
    before the installer could replace the names, so they are found by identity and routed to simulated twins as well."""
    import queue as _queue
    import sys
    import threading as _threading
    import types
    kinds = (_queue.Queue, _threading.Event, _threading.Barrier)
    found = {}

    def visit(v, depth=0):
        if isinstance(v, kinds):
            found[id(v)] = v
        elif depth < 3 and isinstance(v, dict):
            for x in list(v.values()):
                visit(x, depth + 1)
        elif depth < 3 and isinstance(v, (list, tuple, set, frozenset)):
            for x in list(v):
                visit(x, depth + 1)

    def visit_func(f):
        f = getattr(f, '__func__', f)
        if isinstance(f, types.FunctionType):
            visit(f.__defaults__ or ())
            visit(f.__kwdefaults__ or {})

    for name, mod in list(sys.modules.items()):
        if mod is None or not (name == 'bridge_env' or name.startswith('bridge_env.')):
            continue
        for v in list(vars(mod).values()):
            visit(v)
            visit_func(v)
            if isinstance(v, type) and (v.__module__ or '').startswith('bridge_env'):
                for w in list(vars(v).values()):
                    visit(w)
                    visit_func(w)
    return found


def route_real_primitives():
    """Returns an undo function."""
    import queue as _queue
    import threading as _threading
    saved = []
    owned = library_owned_primitives()

    def route(cls, name, make, call):
        orig = cls.__dict__.get(name)
        if orig is None:
            return

        def wrapper(self, *a, **kw):
            # only SUBCLASSES defined by the library, and objects the library built at import time, are routed: the interpreter itself uses plain Event/Queue objects
            # (Thread.start() waits on one), and those must keep their real behaviour
            if (type(self) is not cls and (type(self).__module__ or '').startswith('bridge_env')) or id(self) in owned:
                k = K()
                if k is not None and k.current() is not None:
                    return call(_twin(self, lambda: make(self)), *a, **kw)
            return orig(self, *a, **kw)
        saved.append((cls, name, orig))
        setattr(cls, name, wrapper)

    for n in ('put', 'get', 'put_nowait', 'get_nowait', 'empty', 'full', 'qsize'):
        route(_queue.Queue, n, lambda q: SimQueue(q.maxsize), getattr(SimQueue, n))
    for n in ('set', 'clear', 'wait', 'is_set'):
        route(_threading.Event, n, lambda e: SimEvent(), getattr(SimEvent, n))
    for n in ('wait', 'reset', 'abort'):
        route(_threading.Barrier, n, lambda b: SimBarrier(b._parties, b._action, b._timeout), getattr(SimBarrier, n))

    def undo():
        for cls, name, orig in reversed(saved):
            setattr(cls, name, orig)
    return undo


class SimTime:
    """Replacement for the `time` module inside the server: sleep() is only a scheduling point."""

    def __init__(self):
        import time as _t
        self._t = _t
        self.now = 0.0

    def sleep(self, secs):
        self.now += max(0.0, float(secs))
        _sync('sleep', None, yielding=True)

    def time(self):
        return self.now

    def monotonic(self):
        return self.now

    def __getattr__(self, name):
        return getattr(self._t, name)


# ---------------------------------------------------------------------------------------------
# network


class Network:
    """In-memory TCP-like network: listening sockets with FIFO backlogs, lossless ordered byte streams with
    unbounded buffers, end-of-stream after close.  Records every send with a global step number."""

    def __init__(self, split=None):
        self.listeners = {}
        self.conns = []            # Connection records
        self.accept_order = []     # connection ids in the order accepted
        self.sends = []            # (step, conn_id, direction 'c2s'|'s2c', bytes)
        self.split = split or []   # generated chunk sizes for split deliveries (cycled); empty = whole
        self._split_i = 0
        self.dropped = 0

    def next_chunks(self, n):
        if not self.split or n <= 1:
            return [n]
        out = []
        left = n
        while left > 0:
            c = self.split[self._split_i % len(self.split)]
            self._split_i += 1
            c = left if c <= 0 else min(left, c)
            out.append(c)
            left -= c
        return out


class Connection:
    def __init__(self, cid):
        self.id = cid
        self.label = None          # set by the harness (e.g. client name)


class SimSocket(_Named):
    def __init__(self, net: Network, family=None, type_=None):
        self._mkname('socket')
        self.net = net
        self.rx = bytearray()
        self.peer = None
        self.closed = False
        self.listening = False
        self.backlog = deque()
        self.addr = None
        self.conn = None
        self.side = None           # 'client' | 'server'

    # -- server side ---------------------------------------------------------------
    def bind(self, addr):
        _sync('socket.bind', self.simname)
        if addr in self.net.listeners:
            raise OSError(98, 'Address already in use')
        self.addr = addr
        self.net.listeners[addr] = self

    def listen(self, backlog=0):
        _sync('socket.listen', self.simname)
        self.listening = True

    def accept(self):
        _sync('socket.accept', self.simname, pred=lambda: len(self.backlog) > 0 or self.closed)
        if self.closed:
            raise OSError(9, 'Bad file descriptor')
        s = self.backlog.popleft()
        self.net.accept_order.append(s.conn.id)
        return s, ('127.0.0.1', 40000 + s.conn.id)

    # -- client side ---------------------------------------------------------------
    def connect(self, addr):
        _sync('socket.connect', self.simname)
        lst = self.net.listeners.get(addr)
        if lst is None or not lst.listening or lst.closed:
            raise ConnectionRefusedError(111, 'Connection refused')
        other = SimSocket(self.net)
        conn = Connection(len(self.net.conns))
        self.net.conns.append(conn)
        self.conn = other.conn = conn
        self.side, other.side = 'client', 'server'
        self.peer, other.peer = other, self
        k = K()
        t = k.current() if k else None
        conn.label = t.name if t else None
        lst.backlog.append(other)

    # -- stream --------------------------------------------------------------------
    def sendall(self, data):
        data = bytes(data)
        if self.closed:
            _sync('socket.send', self.simname)
            raise OSError(9, 'Bad file descriptor')
        if getattr(self, 'wr_shut', False):
            raise BrokenPipeError(32, 'Broken pipe')
        sizes = self.net.next_chunks(len(data))
        off = 0
        for n in sizes:
            _sync('socket.send', self.simname)
            if self.peer is None:
                raise OSError(107, 'Transport endpoint is not connected')
            chunk = data[off:off + n]
            off += n
            if self.peer.closed:
                self.net.dropped += len(chunk)    # the peer has gone: the bytes vanish (no RST modelled)
            else:
                self.peer.rx += chunk
        k = K()
        self.net.sends.append((k.steps if k else 0, self.conn.id, 'c2s' if self.side == 'client' else 's2c', data))

    def send(self, data, flags=0):
        """socket.send may write only part of the buffer and says how much: with split deliveries configured it writes
        the first chunk only (code that ignores the return value loses the rest - as it can on a real socket)."""
        data = bytes(data)
        if self.closed or not self.net.split or len(data) <= 1:
            self.sendall(data)
            return len(data)
        n = self.net.next_chunks(len(data))[0]
        self.sendall(data[:n])
        return n

    def recv(self, n, flags=0):
        if self.closed:
            raise OSError(9, 'Bad file descriptor')
        if not self.rx and not self._peer_gone():
            tmo = getattr(self, '_timeout', None)
            if tmo is not None and tmo <= 0:
                raise BlockingIOError(11, 'Resource temporarily unavailable')
            # a socket with a timeout (settimeout) waits like any timed wait: the timeout may expire however long the peer
            # takes - "however long any one thread is delayed" includes "longer than any timeout" (Kernel.eager_timeouts)
            timed = _sync('socket.recv', self.simname, pred=lambda: len(self.rx) > 0 or self._peer_gone() or self.closed,
                          timeout_ok=tmo is not None, yielding=tmo is not None)
            if self.closed:
                raise OSError(9, 'Bad file descriptor')
            if timed and not self.rx and not self._peer_gone():
                raise TimeoutError('timed out')
        out = bytes(self.rx[:n])
        del self.rx[:n]
        return out

    def _peer_gone(self):
        """End-of-stream for this side: no peer, peer closed for real, or peer shut down its writing direction."""
        return self.peer is None or self.peer.closed or getattr(self.peer, 'wr_shut', False)

    def close(self):
        # as socket.socket.close(): with file objects from makefile() still open the descriptor stays open (no end-of-stream
        # for the peer) until the last of them is closed
        if self.closed or getattr(self, '_py_closed', False):
            return
        _sync('socket.close', self.simname)
        self._py_closed = True
        if getattr(self, '_io_refs', 0) <= 0:
            self._real_close()

    def _real_close(self):
        self.closed = True
        if self.listening and self.net.listeners.get(self.addr) is self:
            del self.net.listeners[self.addr]

    def makefile(self, mode='r', buffering=None, *, encoding=None, errors=None, newline=None):
        import io
        sock = self
        sock._io_refs = getattr(sock, '_io_refs', 0) + 1

        class Raw(io.RawIOBase):
            def readable(self):
                return 'r' in mode

            def writable(self):
                return 'w' in mode

            def readinto(self, b):
                d = sock.recv(len(b))
                b[:len(d)] = d
                return len(d)

            def write(self, b):
                sock.sendall(bytes(b))
                return len(b)

            def close(self):
                if self.closed:
                    return
                io.RawIOBase.close(self)
                sock._io_refs -= 1
                if sock._io_refs <= 0 and getattr(sock, '_py_closed', False) and not sock.closed:
                    _sync('socket.close', sock.simname)
                    sock._real_close()
        raw = Raw()
        if buffering == 0:
            return raw
        f = io.BufferedRWPair(raw, raw) if ('r' in mode and 'w' in mode) else io.BufferedWriter(raw) if 'w' in mode else io.BufferedReader(raw)
        return f if 'b' in mode else io.TextIOWrapper(f, encoding=encoding, errors=errors, newline=newline)

    def shutdown(self, how):
        # SHUT_RD = 0, SHUT_WR = 1, SHUT_RDWR = 2: the writing direction ends (the peer reads end-of-stream after what was
        # sent), reading what the peer still sends stays possible
        if self.closed:
            raise OSError(9, 'Bad file descriptor')
        _sync('socket.shutdown', self.simname)
        if how in (1, 2):
            self.wr_shut = True

    def settimeout(self, t):
        self._timeout = t

    def gettimeout(self):
        return getattr(self, '_timeout', None)

    def setblocking(self, flag):
        self._timeout = None if flag else 0.0

    def setsockopt(self, *a):
        pass

    def getpeername(self):
        return ('127.0.0.1', 0)

    def fileno(self):
        return -1

    def __enter__(self):
        return self

    def __exit__(self, *a):
        self.close()


class SocketShim:
    """Stands in for the `socket` module inside bridge_env.network_bridge.socket_interface."""

    def __init__(self, net):
        import socket as _s
        self._s = _s
        self._net = net
        self.AF_INET = _s.AF_INET
        self.SOCK_STREAM = _s.SOCK_STREAM

    def socket(self, family=None, type_=None, *a, **kw):
        return SimSocket(self._net, family, type_)

    def __getattr__(self, name):
        return getattr(self._s, name)
