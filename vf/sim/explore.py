"""Systematic schedule exploration on top of the kernel.

* `all_schedules(run)` - depth-first enumeration of EVERY schedule of a (small) program: the chooser follows a prefix of
  branch indices and records the branching width at every step; the next prefix is the odometer successor.
* `Preemptions` - preemption-bounded enumeration for whole sessions: the default policy (keep the
  running task while it is enabled, otherwise the first enabled task in the kernel's deterministic order) is followed
  except at ONE step, where the k-th alternative is taken instead.  The set {(step, k)} is finite and is enumerated
  completely (CHESS-style context bound 1, with a deterministic choice at non-preemptive switches).
"""
from __future__ import annotations


class Dfs:
    def __init__(self, prefix):
        self.prefix = list(prefix)
        self.chosen = []
        self.widths = []

    def __call__(self, enabled, kernel):
        i = len(self.chosen)
        k = self.prefix[i] if i < len(self.prefix) else 0
        if k >= len(enabled):           # cannot happen for a deterministic program
            k = 0
        self.chosen.append(k)
        self.widths.append(len(enabled))
        return enabled[k]

    def successor(self):
        for i in range(len(self.chosen) - 1, -1, -1):
            if self.chosen[i] + 1 < self.widths[i]:
                return self.chosen[:i] + [self.chosen[i] + 1]
        return None


def all_schedules(run, limit=200000):
    """run(chooser) -> outcome (hashable).  Returns ({outcome: count}, n_schedules, complete?)."""
    out = {}
    prefix = []
    n = 0
    while prefix is not None:
        ch = Dfs(prefix)
        o = run(ch)
        out[o] = out.get(o, 0) + 1
        n += 1
        if n >= limit:
            return out, n, False
        prefix = ch.successor()
    return out, n, True


class Preemptions:
    """Default policy everywhere except at the steps in `at` ({step: k}), where alternative k (index into the enabled
    list, which starts with the running task when it is enabled; k >= 1 is a preemption or a non-default switch) is
    taken instead. `order` selects the default policy: 0 = kernel order (running task first, then ascending task id),
    1 = running task first, then DESCENDING task id, 2 = as 0 but a task that pauses (sleep) keeps running."""

    def __init__(self, at, order=0, record=None):
        self.at = {int(s): int(k) for s, k in dict(at).items()}
        self.order = order
        self.record = record      # optional list receiving (step, n_enabled)
        self._naps = 0

    def __call__(self, enabled, kernel):
        if self.order == 1 and len(enabled) > 1:
            head = [t for t in enabled if t is kernel.last and not t.yielding]
            rest = sorted((t for t in enabled if t not in head), key=lambda t: (t.yielding, -t.id))
            enabled = head + rest
        elif self.order == 2 and len(enabled) > 1:
            # a pause does not hand over: the others are slower than any sleep ("however long a thread is delayed").
            # A task that pauses 200 times in a row without anybody else running is polling: then it does hand over.
            if kernel.last in enabled and kernel.last.yielding and self._naps < 200:
                self._naps += 1
                enabled = [kernel.last] + [t for t in enabled if t is not kernel.last]
            else:
                self._naps = 0
        if self.record is not None:
            self.record.append((kernel.steps, len(enabled)))
        k = self.at.get(kernel.steps)
        if k is not None and k < len(enabled):
            return enabled[k]
        return enabled[0]
