"""The same scripted session on REAL threads and REAL loopback TCP sockets (DESIGN.md 4.5): the unmodified Server,
its own threading.Barrier/Event/Queue, four reference clients in OS threads.  Only the server's 1-second pauses are
shortened (server.time.sleep -> sleep(0)).  Used (a) as a differential against the simulated run of the same scenario
and (b) as a check in its own right: the log and the four transcripts must satisfy the same oracles.  Wall-clock limits
here are a safety net only: hitting one is 'inconclusive', never a violation."""
from __future__ import annotations

import os
import pathlib
import socket
import tempfile
import threading
import time
import traceback
import types

from vf.common.core import VERIF_ROOT, Inconclusive
from vf.sim.session import ref_client, make_settings, seed_for_server_deals


class RealResult:
    pass


_PORT_COUNTER = [0]


def _free_port():
    """A port from a window of a hundred that belongs to this process alone (10000 + (pid mod 220) * 100 ...), below the
    kernel's ephemeral range: "bind to port 0, close, let the table manager bind it a moment later" races with the other
    shard processes doing the same, and two table managers (or the clients of two sessions) then meet on one port."""
    base = 10000 + (os.getpid() % 220) * 100
    for _ in range(100):
        port = base + _PORT_COUNTER[0] % 100
        _PORT_COUNTER[0] += 1
        s = socket.socket(socket.AF_INET, socket.SOCK_STREAM)
        try:
            s.bind(('127.0.0.1', port))
            return port
        except OSError:
            continue
        finally:
            s.close()
    raise Inconclusive('no free loopback port in this process\'s window')


def run_real_session(scenario, timeout_s=60.0, client_fns=None):
    """client_fns: None = four reference clients; else a function (ip, port) -> four callables, each running one whole
    client (e.g. the bundled Client) - it is retried while the table manager's port still refuses connections."""
    from bridge_env.network_bridge import server as SV
    workdir = os.path.join(VERIF_ROOT, '.work', 'sessions')
    os.makedirs(workdir, exist_ok=True)
    fd, out_path = tempfile.mkstemp(suffix='.json', dir=workdir)
    os.close(fd)
    from vf.sim.session import STALE_LOG
    with open(out_path, 'w') as f:           # an earlier, longer log sits at the output path ("File will be overwritten")
        f.write(STALE_LOG)
    res = RealResult()
    res.client_logs = {s: [] for s in range(4)}
    res.client_exc, res.client_state = {}, {s: {} for s in range(4)}
    res.server_exc = res.server_tb = None
    real_time_mod = SV.time
    SV.time = types.SimpleNamespace(sleep=lambda secs: time.sleep(0), time=time.time)
    listening = threading.Event()
    seed_for_server_deals(scenario)
    try:
        last = None
        for _ in range(6):
            port = _free_port()
            server = SV.Server(ip_address='127.0.0.1', port=port, output_file_path=pathlib.Path(out_path),
                               board_settings=make_settings(scenario))
            done = threading.Event()

            def server_main():
                try:
                    with server:
                        # announce as soon as the listening socket exists; clients retry until it listens
                        listening.set()
                        server.run()
                except BaseException as e:  # noqa
                    res.server_exc = e
                    res.server_tb = traceback.format_exc()
                finally:
                    done.set()
            st = threading.Thread(target=server_main, name='real-main', daemon=True)
            st.start()
            listening.wait(5)
            time.sleep(0.02)
            if done.is_set() and isinstance(res.server_exc, OSError) and 'in use' in str(res.server_exc):
                last = res.server_exc
                res.server_exc = res.server_tb = None
                continue
            break
        else:
            raise Inconclusive(f'no free loopback port: {last!r}')

        fns = client_fns('127.0.0.1', port) if client_fns is not None else None

        def client(seat):
            team = scenario['teams'][seat % 2]
            deadline = time.time() + 10
            while fns is not None:
                try:
                    fns[seat]()
                    return
                except ConnectionRefusedError as e:      # raised by connect(): nothing was sent yet, try again
                    if time.time() > deadline or done.is_set():
                        res.client_exc[seat] = e
                        return
                    time.sleep(0.01)
                except BaseException as e:  # noqa
                    res.client_exc[seat] = e
                    return
            while True:
                sock = socket.socket(socket.AF_INET, socket.SOCK_STREAM)
                try:
                    sock.connect(('127.0.0.1', port))
                    break
                except OSError:
                    sock.close()
                    if time.time() > deadline or done.is_set():
                        res.client_exc[seat] = ConnectionRefusedError('server never listened')
                        return
                    time.sleep(0.01)

            class Pre:           # already connected: ref_client's connect() becomes a no-op
                def connect(self, addr):
                    pass

                def __getattr__(self, name):
                    return getattr(sock, name)
            try:
                sock.settimeout(timeout_s)
                ref_client(seat, team, scenario, None, res.client_logs[seat], state=res.client_state[seat], sock=Pre(), addr=('127.0.0.1', port))
            except BaseException as e:  # noqa
                res.client_exc[seat] = e
        threads = []
        for seat in scenario.get('arrival', [0, 1, 2, 3]):
            t = threading.Thread(target=client, args=(seat,), name=f'real-client-{seat}', daemon=True)
            t.start()
            threads.append(t)
            time.sleep(0.005)
        t_end = time.time() + timeout_s
        for t in threads + [st]:
            t.join(max(0.0, t_end - time.time()))
        res.timed_out = any(t.is_alive() for t in threads + [st])
    finally:
        SV.time = real_time_mod
    try:
        with open(out_path) as f:
            res.output_text = f.read()
    except OSError:
        res.output_text = None
    try:
        os.unlink(out_path)
    except OSError:
        pass
    return res


def run_real_interrupt(scenario, fault, timeout_s=60.0):
    """The table manager runs in its own PROCESS (main thread); the four reference clients run here over loopback TCP.
    At the scripted point - the acting seat is due to send its call / card, so the table manager is waiting for it - that
    seat sends SIGINT to the server process instead.  Returns a RealResult with .returncode, .output_text, .stderr_tail."""
    import json
    import signal
    import subprocess
    import sys
    workdir = os.path.join(VERIF_ROOT, '.work', 'sessions')
    os.makedirs(workdir, exist_ok=True)
    fd, out_path = tempfile.mkstemp(suffix='.json', dir=workdir)
    os.close(fd)
    os.unlink(out_path)                                  # the table manager creates it
    fd, spec_path = tempfile.mkstemp(suffix='.spec', dir=workdir)
    os.close(fd)
    from vf.common import core
    res = RealResult()
    res.client_logs = {s: [] for s in range(4)}
    res.client_exc, res.client_state = {}, {s: {} for s in range(4)}
    env = dict(os.environ)
    env['PYTHONPATH'] = os.pathsep.join([VERIF_ROOT, os.path.join(VERIF_ROOT, '.deps')])
    proc = None
    try:
        for attempt in range(6):
            port = _free_port()
            with open(spec_path, 'w') as f:
                json.dump({'repo': core.REPO, 'port': port, 'out': out_path, 'scenario': scenario}, f)
            proc = subprocess.Popen([sys.executable, '-m', 'vf.sim.realserver', spec_path], cwd=VERIF_ROOT, env=env,
                                    stdout=subprocess.PIPE, stderr=subprocess.PIPE, text=True)
            line = proc.stdout.readline()
            if 'LISTENING-SOON' in line:
                break
            proc.kill()
            proc.wait()
        else:
            raise Inconclusive('server process did not start')
        sent = threading.Event()

        def interrupt():
            time.sleep(0.05)          # let the table manager reach its wait for this seat's message
            proc.send_signal(signal.SIGINT)
            sent.set()

        def client(seat):
            team = scenario['teams'][seat % 2]
            deadline = time.time() + 15
            while True:
                sock = socket.socket(socket.AF_INET, socket.SOCK_STREAM)
                try:
                    sock.connect(('127.0.0.1', port))
                    break
                except OSError:
                    sock.close()
                    if time.time() > deadline or proc.poll() is not None:
                        res.client_exc[seat] = ConnectionRefusedError('server never listened')
                        return
                    time.sleep(0.01)

            class Pre:
                def connect(self, addr):
                    pass

                def __getattr__(self, name):
                    return getattr(sock, name)
            try:
                sock.settimeout(timeout_s)
                f = dict(fault, action=interrupt) if fault.get('seat') == seat else None
                ref_client(seat, team, scenario, None, res.client_logs[seat], fault=f, state=res.client_state[seat], sock=Pre())
            except BaseException as e:  # noqa
                res.client_exc[seat] = e
        threads = []
        for seat in scenario.get('arrival', [0, 1, 2, 3]):
            t = threading.Thread(target=client, args=(seat,), daemon=True)
            t.start()
            threads.append(t)
            time.sleep(0.005)
        try:
            out, err = proc.communicate(timeout=timeout_s)
            res.timed_out = False
        except subprocess.TimeoutExpired:
            proc.kill()
            out, err = proc.communicate()
            res.timed_out = True
        res.returncode = proc.returncode
        res.stdout, res.stderr_tail = out, (err or '')[-600:]
        res.interrupt_sent = sent.is_set()
        for t in threads:
            t.join(5)
    finally:
        if proc is not None and proc.poll() is None:
            proc.kill()
        try:
            os.unlink(spec_path)
        except OSError:
            pass
    try:
        with open(out_path) as f:
            res.output_text = f.read()
        os.unlink(out_path)
    except OSError:
        res.output_text = None
    return res
