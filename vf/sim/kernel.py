"""Deterministic, schedule-owning kernel.

Managed tasks are real OS threads, but exactly one runs at a time: each parks on a private
semaphore and the scheduler (the thread that calls Kernel.run) releases one, then waits until it
reaches its next scheduling point (Kernel.point) or ends.  A scheduling point is taken *before*
every operation on a simulated object; a blocking operation publishes an enabling predicate and
the task is eligible only while it holds.  The sequence of chosen task ids is the explicit
schedule (Kernel.trace) and replays deterministically.
"""
from __future__ import annotations

import threading
from typing import Callable, List, Optional


class Kill(BaseException):
    """Raised inside a parked task at teardown."""


class _Gate:
    """Binary hand-off gate on a raw lock (much cheaper than threading.Semaphore)."""
    __slots__ = ('_l',)

    def __init__(self):
        self._l = threading.Lock()
        self._l.acquire()

    def acquire(self):
        self._l.acquire()

    def release(self):
        try:
            self._l.release()
        except RuntimeError:      # already open (only happens during teardown)
            pass


class Task:
    def __init__(self, kernel, tid, name, fn, required):
        self.kernel, self.id, self.name, self.fn, self.required = kernel, tid, name, fn, required
        self.sem = _Gate()
        self.state = 'ready'          # ready | running | done
        self.op = 'start'
        self.obj = None
        self.pred: Optional[Callable[[], bool]] = None
        self.timeout_ok = False       # a timed wait: may be woken by "timeout" when nothing else can run
        self.timed_out = False
        self.yielding = False         # sleep / timed wait: goes to the back of the enabled order
        self.exc: Optional[BaseException] = None
        self.npoints = 0              # scheduling points taken so far
        self.waited = 0               # steps spent enabled-but-not-chosen at the current point
        self.max_waited = 0
        self.thread = threading.Thread(target=self._body, name=f'sim-{name}', daemon=True)

    def _body(self):
        self.sem.acquire()
        k = self.kernel
        try:
            if k.killing:
                return
            k._tls.task = self
            self.state = 'running'
            if k.trace_files:
                import sys
                sys.settrace(k._tracer)
            self.fn()
        except Kill:
            pass
        except BaseException as e:  # noqa
            self.exc = e
        finally:
            self.state = 'done'
            k._back.release()

    def enabled(self):
        return self.state == 'ready' and (self.pred is None or self.pred())

    def describe(self):
        return f'{self.name}: {self.state} at {self.op}' + (f' [{self.obj}]' if self.obj else '')


class Outcome:
    def __init__(self, status, kernel, detail=None):
        self.status = status          # completed | deadlock | step_bound
        self.detail = detail
        self.steps = kernel.steps
        self.trace = list(kernel.trace)
        self.tasks = [(t.name, t.state, t.op, t.obj, repr(t.exc) if t.exc else None) for t in kernel.tasks]
        self.exceptions = {t.name: t.exc for t in kernel.tasks if t.exc is not None}
        self.max_waited = max([t.max_waited for t in kernel.tasks] or [0])


class Kernel:
    def __init__(self, chooser, max_steps=400000):
        self.chooser = chooser
        self.max_steps = max_steps
        self.tasks: List[Task] = []
        self.steps = 0
        self.trace: List[int] = []
        self.killing = False
        self.last: Optional[Task] = None
        self._back = _Gate()
        self._tls = threading.local()
        self.sync_ops = 0             # operations on synchronisation objects executed so far (for targeting)
        self.log: List[tuple] = []    # optional (step, task, op, obj)
        self.keep_log = False
        self.stalled_steps = 0
        self.fault_hook = None        # callable(task, op, obj) run inside the task after each sync operation
        # line-level scheduling: every source line executed by a managed task in one of these files (path suffixes) is a
        # scheduling point (used to interleave plain library calls that share module-level state)
        self.trace_files = ()
        self.eager_timeouts = True    # timed waits may expire although other tasks are enabled ("however long a thread is delayed")
        self.expired_early = 0
        self.trace_repeat_limit = 3
        self.trace_funcs = ()         # if non-empty: only functions with these names are traced

    # -- called from any thread -------------------------------------------------------------
    def current(self) -> Optional[Task]:
        return getattr(self._tls, 'task', None)

    def spawn(self, fn, name, required=True) -> Task:
        t = Task(self, len(self.tasks), name, fn, required)
        self.tasks.append(t)
        t.thread.start()
        return t

    def point(self, op, obj=None, pred=None, timeout_ok=False, yielding=False):
        """Scheduling point of the calling managed task; returns when the task is chosen again
        (and, for blocking operations, its predicate holds).  No-op for unmanaged threads."""
        t = self.current()
        if t is None:
            return False
        if self.killing:
            raise Kill()
        t.op, t.obj, t.pred, t.timeout_ok, t.yielding = op, obj, pred, timeout_ok, yielding
        t.timed_out = False
        t.npoints += 1
        t.waited = 0
        t.state = 'ready'
        self._back.release()
        t.sem.acquire()
        if self.killing:
            raise Kill()
        t.state = 'running'
        t.pred = None
        return t.timed_out

    def _tracer(self, frame, event, arg):
        if event != 'call':
            return None
        fn = frame.f_code.co_filename
        if not any(sfx in fn for sfx in self.trace_files):
            return None
        if self.trace_funcs and frame.f_code.co_name not in self.trace_funcs:
            return None
        base = fn.rsplit('/', 1)[-1]

        seen = {}

        def local(frame, event, arg):
            if event == 'line':
                # a line inside a loop/comprehension is a scheduling point only for its first few executions per call
                n = seen.get(frame.f_lineno, 0)
                if n < self.trace_repeat_limit:
                    seen[frame.f_lineno] = n + 1
                    self.point('line', f'{base}:{frame.f_lineno}')
            return local
        return local

    # -- scheduler --------------------------------------------------------------------------
    def run(self) -> Outcome:
        try:
            while True:
                req = [t for t in self.tasks if t.required]
                req_done = bool(req) and all(t.state == 'done' for t in req)
                enabled = [t for t in self.tasks if t.enabled()]
                if req_done and not enabled:
                    # drained: whatever is not done now is stuck for good
                    return Outcome('completed', self, [t.describe() for t in self.tasks if t.state != 'done'])
                timed = False
                if not enabled:
                    # timed waits may expire when nothing else can run
                    enabled = [t for t in self.tasks if t.state == 'ready' and t.timeout_ok]
                    timed = True
                if not enabled:
                    return Outcome('deadlock', self, [t.describe() for t in self.tasks if t.state != 'done'])
                if self.steps >= self.max_steps:
                    return Outcome('step_bound', self)
                # order: the task that ran last first (unless it is yielding), then by id; yielders last
                enabled.sort(key=lambda t: (t.yielding, 0 if t is self.last else 1, t.id))
                expiring = []
                if self.eager_timeouts and not timed:
                    # "however long any one thread is delayed": a timed wait may also expire while others could still
                    # run (they are just slower than the timeout) - offered to the chooser after all enabled tasks
                    expiring = [t for t in self.tasks if t.state == 'ready' and t.timeout_ok and not t.enabled()]
                    enabled = enabled + sorted(expiring, key=lambda t: t.id)
                t = self.chooser(enabled, self)
                if t in expiring:
                    t.timed_out = True
                    self.expired_early += 1
                for o in enabled:
                    if o is not t:
                        o.waited += 1
                        if o.waited > o.max_waited:
                            o.max_waited = o.waited
                if timed:
                    t.timed_out = True
                self.trace.append(t.id)
                self.steps += 1
                if self.keep_log:
                    self.log.append((self.steps, t.name, t.op, t.obj))
                self.last = t
                t.state = 'running'
                t.sem.release()
                self._back.acquire()
        finally:
            self.shutdown()

    def shutdown(self):
        self.killing = True
        for t in self.tasks:
            if t.state != 'done':
                t.sem.release()
        for t in self.tasks:
            t.thread.join(timeout=10)


# ---------------------------------------------------------------------------------------------
# choosers: deterministic functions of their parameters and of the run so far


def first_enabled(enabled, kernel):
    return enabled[0]


class Preempt:
    """At the i-th scheduling step choose enabled[k_i mod n]; afterwards keep the running task while
    it is enabled, else round-robin."""

    def __init__(self, ks):
        self.ks = list(ks)

    def __call__(self, enabled, kernel):
        i = kernel.steps
        if i < len(self.ks):
            return enabled[self.ks[i] % len(enabled)]
        return enabled[0]


class Sparse:
    """Preemptions only at the given steps: {step: k}. Elsewhere run the current task while enabled."""

    def __init__(self, at):
        self.at = {int(k): v for k, v in dict(at).items()}

    def __call__(self, enabled, kernel):
        k = self.at.get(kernel.steps)
        if k is None:
            return enabled[0]
        return enabled[k % len(enabled)]


class PCT:
    """Probabilistic-concurrency-testing style: distinct priorities per task (by spawn order, from the drawn
    list), and change points (step numbers) at which the running task drops to the lowest priority."""

    def __init__(self, prios, change_points):
        self.prios = list(prios) or [0]
        self.change = set(change_points)
        self.low = 0
        self.dyn = {}

    def prio(self, t):
        if t.id in self.dyn:
            return self.dyn[t.id]
        return 1000 + self.prios[t.id % len(self.prios)] * 64 - t.id

    def __call__(self, enabled, kernel):
        if kernel.steps in self.change and kernel.last is not None:
            self.low -= 1
            self.dyn[kernel.last.id] = self.low
        for t in enabled:
            if t.yielding:              # fairness: a sleeper/poller yields to everybody else
                self.low -= 1
                self.dyn[t.id] = self.low
        return max(enabled, key=self.prio)


class Uniform:
    def __init__(self, seed):
        import random
        self.rng = random.Random(seed)   # seeded from a Hypothesis-drawn integer

    def __call__(self, enabled, kernel):
        return enabled[self.rng.randrange(len(enabled))]


class Stall:
    """Freeze tasks whose name matches `victim` from their `at`-th scheduling point for `length` steps or until
    nothing else is enabled; delegate to `base` otherwise."""

    def __init__(self, base, stalls):
        self.base = base
        self.stalls = [dict(s, left=s['length']) for s in stalls]

    def __call__(self, enabled, kernel):
        frozen = set()
        for s in self.stalls:
            if s['left'] <= 0:
                continue
            for t in enabled:
                if s['victim'] in t.name and t.npoints >= s['at']:
                    frozen.add(t.id)
                    s['active'] = True
        rest = [t for t in enabled if t.id not in frozen]
        if rest and frozen:
            for s in self.stalls:
                if s.get('active') and s['left'] > 0:
                    s['left'] -= 1
            kernel.stalled_steps += 1
            return self.base(rest, kernel)
        if frozen and not rest:
            for s in self.stalls:
                if s.get('active'):
                    s['left'] = 0       # nothing else can run: the stall ends
        return self.base(enabled, kernel)


class Starve:
    """One task (or all whose name contains `victim`) is delayed without limit: it runs only when nothing else can.  The
    purest form of "however long any one thread is delayed" - everybody who does not need the victim keeps going."""

    def __init__(self, base, victim):
        self.base, self.victim = base, victim

    def __call__(self, enabled, kernel):
        rest = [t for t in enabled if self.victim not in t.name]
        if rest and len(rest) < len(enabled):
            kernel.stalled_steps += 1
            return self.base(rest, kernel)
        return self.base(enabled, kernel)


class Replay:
    """Follow an explicit trace of task ids; if the recorded task is not enabled (the code changed), fall back
    to the first enabled task."""

    def __init__(self, trace):
        self.trace = list(trace)
        self.diverged = None

    def __call__(self, enabled, kernel):
        i = kernel.steps
        if i < len(self.trace):
            for t in enabled:
                if t.id == self.trace[i]:
                    return t
            if self.diverged is None:
                self.diverged = i
        return enabled[0]


def make_chooser(spec):
    """spec: JSON-able description drawn by Hypothesis."""
    kind = spec['kind']
    if kind == 'sequential':
        base = first_enabled
    elif kind == 'preempt':
        base = Preempt(spec['ks'])
    elif kind == 'sparse':
        base = Sparse(spec['at'])
    elif kind == 'pct':
        base = PCT(spec['prios'], spec['change'])
    elif kind == 'uniform':
        base = Uniform(spec['seed'])
    elif kind == 'replay':
        base = Replay(spec['trace'])
    elif kind == 'pre':
        from vf.sim.explore import Preemptions
        base = Preemptions(spec['at'], spec.get('order', 0))
    else:
        raise ValueError(kind)
    if spec.get('starve'):
        base = Starve(base, spec['starve'])
    if spec.get('stalls'):
        return Stall(base, spec['stalls'])
    return base
