"""Fidelity self-test of the simulated primitives (DESIGN.md 4.5).

Small programs over Event / Queue / Barrier / Lock / Condition / Semaphore / sockets are run
  (1) inside the kernel under EVERY schedule (depth-first enumeration, vf/sim/explore.py): the set of outcomes must
      equal the hand-derived set that CPython's documented semantics allow - so the simulator neither invents nor
      loses a behaviour on these programs;
  (2) on real OS threads with the real `threading` / `queue` / loopback `socket` objects: the observed outcome must be
      one of the simulated ones.
A mismatch is a HARNESS error (exit 2): it says the simulator misrepresents the primitives, never that the library
violates a property.  Run time: well under a second for (1), ~1 s for (2)."""
from __future__ import annotations

import queue as real_queue
import socket as real_socket
import threading as real_threading
import time as real_time

from vf.sim import objects as O
from vf.sim.explore import all_schedules
from vf.sim.kernel import Kernel


class SimNS:
    """Namespace a program sees inside the kernel."""

    def __init__(self, kernel, net):
        self.k, self.net = kernel, net
        self.Event, self.Queue, self.Barrier = O.SimEvent, O.SimQueue, O.SimBarrier
        self.Lock, self.Condition, self.Semaphore = O.SimLock, O.SimCondition, O.SimSemaphore
        self.Empty = real_queue.Empty
        self.BrokenBarrierError = real_threading.BrokenBarrierError
        self.real = False
        self.addr = ('selftest', 1)

    def spawn(self, fn, name):
        return self.k.spawn(fn, name, required=True)

    def join(self, t):
        self.k.point('join', t.name, pred=lambda: t.state == 'done')

    def sleep(self):
        self.k.point('sleep', None, yielding=True)

    def socket(self):
        return O.SimSocket(self.net)

    T = None     # timeout used for "would block forever" waits (sim: expires only when nothing else can run)


class RealNS:
    def __init__(self):
        self.Event, self.Queue, self.Barrier = real_threading.Event, real_queue.Queue, real_threading.Barrier
        self.Lock, self.Condition, self.Semaphore = real_threading.Lock, real_threading.Condition, real_threading.Semaphore
        self.Empty = real_queue.Empty
        self.BrokenBarrierError = real_threading.BrokenBarrierError
        self.real = True
        self.addr = None
        self._lsock = None

    def spawn(self, fn, name):
        t = real_threading.Thread(target=fn, name=name, daemon=True)
        t.start()
        return t

    def join(self, t):
        t.join(20)
        if t.is_alive():
            raise RuntimeError('real-thread self-test program did not finish')

    def sleep(self):
        real_time.sleep(0)

    def socket(self):
        return real_socket.socket(real_socket.AF_INET, real_socket.SOCK_STREAM)


TIMEOUT = 0.3     # real threads: long enough for the other tiny thread to have run; sim: "nothing else can run"


# ---------------------------------------------------------------------------------------------
# programs: prog(ns) -> hashable outcome


def p_event_set_clear_vs_wait(ns):
    e = ns.Event()
    r = []

    def a():
        e.set()
        e.clear()

    def b():
        r.append(e.wait(TIMEOUT))
    ts = [ns.spawn(a, 'a'), ns.spawn(b, 'b')]
    for t in ts:
        ns.join(t)
    return r[0]


def p_event_blocked_waiter_survives_clear(ns):
    """A waiter that is already blocked when set() happens is released even though the flag is cleared at once."""
    e, started = ns.Event(), ns.Event()
    r = []

    def b():
        started.set()
        r.append(e.wait(TIMEOUT * 10))

    def a():
        started.wait()
        if ns.real:
            real_time.sleep(0.15)      # let b block in wait()
        e.set()
        e.clear()
    ts = [ns.spawn(b, 'b'), ns.spawn(a, 'a')]
    for t in ts:
        ns.join(t)
    return r[0]


def p_event_timeout_false(ns):
    e = ns.Event()
    return e.wait(0.01)


def p_event_stays_set(ns):
    e = ns.Event()
    r = []

    def a():
        e.set()

    def b():
        r.append(e.wait(TIMEOUT * 10))
        r.append(e.wait(TIMEOUT * 10))
    ts = [ns.spawn(a, 'a'), ns.spawn(b, 'b')]
    for t in ts:
        ns.join(t)
    return tuple(r)


def p_queue_fifo(ns):
    q = ns.Queue()

    def a():
        q.put(1)
        q.put(2)

    def b():
        q.put(3)
    ts = [ns.spawn(a, 'a'), ns.spawn(b, 'b')]
    for t in ts:
        ns.join(t)
    return tuple(q.get() for _ in range(3))


def p_queue_get_blocks(ns):
    q = ns.Queue()
    r = []

    def c():
        r.append(q.get())

    def a():
        ns.sleep()
        q.put(5)
    ts = [ns.spawn(c, 'c'), ns.spawn(a, 'a')]
    for t in ts:
        ns.join(t)
    return r[0]


def p_queue_get_nowait_empty(ns):
    q = ns.Queue()
    try:
        q.get(block=False)
        return 'got'
    except ns.Empty:
        return 'empty'


def p_barrier_reuse(ns):
    b = ns.Barrier(2)
    log = []
    idx = []

    def w(i):
        def f():
            idx.append(b.wait())
            log.append(('a', i))
            idx.append(b.wait())
            log.append(('b', i))
        return f
    ts = [ns.spawn(w(i), f'w{i}') for i in range(2)]
    for t in ts:
        ns.join(t)
    phases = [p for p, _ in log]
    return (phases == ['a'] * 2 + ['b'] * 2, sorted(idx) == [0, 0, 1, 1])


def p_barrier_short_of_parties(ns):
    """Two of three parties: nobody passes (timeout breaks the barrier)."""
    b = ns.Barrier(3)
    r = []

    def w():
        try:
            b.wait(TIMEOUT)
            r.append('passed')
        except ns.BrokenBarrierError:
            r.append('broken')
    ts = [ns.spawn(w, 'w0'), ns.spawn(w, 'w1')]
    for t in ts:
        ns.join(t)
    return tuple(sorted(r))


def p_lock_counter(ns):
    lock = ns.Lock()
    c = [0]

    def w():
        with lock:
            v = c[0]
            ns.sleep()
            c[0] = v + 1
    ts = [ns.spawn(w, 'w0'), ns.spawn(w, 'w1')]
    for t in ts:
        ns.join(t)
    return c[0]


def p_racy_counter(ns):
    """Control: without the lock the explorer must find the lost update (sensitivity of the enumeration itself)."""
    c = [0]

    def w():
        v = c[0]
        ns.sleep()
        c[0] = v + 1
    ts = [ns.spawn(w, 'w0'), ns.spawn(w, 'w1')]
    for t in ts:
        ns.join(t)
    return c[0]


def p_condition_handoff(ns):
    cond = ns.Condition()
    state = {'flag': False}
    r = []

    def waiter():
        with cond:
            while not state['flag']:
                cond.wait()
            r.append('woken')

    def setter():
        with cond:
            state['flag'] = True
            cond.notify()
    ts = [ns.spawn(waiter, 'waiter'), ns.spawn(setter, 'setter')]
    for t in ts:
        ns.join(t)
    return tuple(r)


def p_semaphore_handoff(ns):
    s = ns.Semaphore(0)
    r = []

    def a():
        r.append('a')
        s.release()

    def b():
        s.acquire()
        r.append('b')
    ts = [ns.spawn(b, 'b'), ns.spawn(a, 'a')]
    for t in ts:
        ns.join(t)
    return tuple(r)


def p_lost_wakeup_shape(ns):
    """The F-C09-1 shape in miniature: a release flag that is set and cleared while the worker may not yet wait."""
    go = ns.Event()
    r = []

    def main():
        go.set()
        go.clear()

    def worker():
        r.append(go.wait(TIMEOUT))
        r.append(go.wait(TIMEOUT))
    ts = [ns.spawn(main, 'main'), ns.spawn(worker, 'worker')]
    for t in ts:
        ns.join(t)
    return tuple(r)


def _listen(ns):
    ls = ns.socket()
    if ns.real:
        ls.setsockopt(real_socket.SOL_SOCKET, real_socket.SO_REUSEADDR, 1)
        ls.bind(('127.0.0.1', 0))
        addr = ls.getsockname()
    else:
        addr = ns.addr
        ls.bind(addr)
    ls.listen(4)
    return ls, addr


def p_socket_stream(ns):
    ls, addr = _listen(ns)
    r = []

    def client():
        c = ns.socket()
        c.connect(addr)
        c.sendall(b'ab')
        c.sendall(b'cd')
        c.close()

    def server():
        s, _ = ls.accept()
        buf = b''
        while True:
            d = s.recv(1)
            if d == b'':
                break
            buf += d
        r.append(buf)
        r.append(s.recv(1))
        s.close()
    ts = [ns.spawn(server, 'server'), ns.spawn(client, 'client')]
    for t in ts:
        ns.join(t)
    ls.close()
    return tuple(r)


def p_socket_both_ways(ns):
    ls, addr = _listen(ns)
    r = []

    def client():
        c = ns.socket()
        c.connect(addr)
        c.sendall(b'ping\r\n')
        buf = b''
        while not buf.endswith(b'\r\n'):
            buf += c.recv(1)
        r.append(('client', buf))
        c.close()

    def server():
        s, _ = ls.accept()
        buf = b''
        while not buf.endswith(b'\r\n'):
            buf += s.recv(1)
        s.sendall(b'pong\r\n')
        r.append(('server', buf))
        d = s.recv(1)       # peer closes
        r.append(('eof', d))
        s.close()
    ts = [ns.spawn(server, 'server'), ns.spawn(client, 'client')]
    for t in ts:
        ns.join(t)
    ls.close()
    return tuple(sorted(r))


def p_accept_fifo(ns):
    ls, addr = _listen(ns)
    first = ns.Event()
    socks = []

    def c1():
        c = ns.socket()
        c.connect(addr)
        first.set()
        c.sendall(b'1')
        socks.append(c)

    def c2():
        first.wait()
        c = ns.socket()
        c.connect(addr)
        c.sendall(b'2')
        socks.append(c)
    ts = [ns.spawn(c1, 'c1'), ns.spawn(c2, 'c2')]
    for t in ts:
        ns.join(t)
    r = []
    for _ in range(2):
        s, _a = ls.accept()
        r.append(s.recv(1))
        s.close()
    for c in socks:
        c.close()
    ls.close()
    return tuple(r)


# name, program, exact set of outcomes allowed by CPython semantics, run on real threads too?
PROGRAMS = [
    ('event: set+clear vs wait', p_event_set_clear_vs_wait, {True, False}, True),
    ('event: blocked waiter survives clear', p_event_blocked_waiter_survives_clear, {True, False}, True),
    ('event: wait times out', p_event_timeout_false, {False}, True),
    ('event: stays set', p_event_stays_set, {(True, True)}, True),
    ('queue: FIFO per producer', p_queue_fifo, {(1, 2, 3), (1, 3, 2), (3, 1, 2)}, True),
    ('queue: get blocks until put', p_queue_get_blocks, {5}, True),
    ('queue: get_nowait on empty', p_queue_get_nowait_empty, {'empty'}, True),
    ('barrier: reusable, generations do not mix', p_barrier_reuse, {(True, True)}, True),
    ('barrier: short of parties never passes', p_barrier_short_of_parties, {('broken', 'broken')}, True),
    ('lock: mutual exclusion', p_lock_counter, {2}, True),
    ('control: racy counter loses an update', p_racy_counter, {1, 2}, True),
    ('condition: wait/notify', p_condition_handoff, {('woken',)}, True),
    ('semaphore: hand-off', p_semaphore_handoff, {('a', 'b')}, True),
    ('lost wake-up shape', p_lost_wakeup_shape, {(True, True), (True, False), (False, False)}, True),
    ('socket: ordered stream, EOF after close', p_socket_stream, {(b'abcd', b'')}, True),
    ('socket: both directions', p_socket_both_ways, {(('client', b'pong\r\n'), ('eof', b''), ('server', b'ping\r\n'))}, True),
    ('socket: accept order is connect order', p_accept_fifo, {(b'1', b'2')}, True),
]

# forced-schedule facts: (program, must-contain outcome) are covered by set equality above; the blocked-waiter program
# additionally must yield True on the schedule in which b blocks before a sets (checked in _forced below).


def run_sim(prog, chooser):
    k = Kernel(chooser, max_steps=5000)
    k.eager_timeouts = False       # here a timeout stands for "nothing else can run" (the allowed outcome sets assume it)
    net = O.Network()
    O.set_kernel(k)
    O._Named._count = 0
    ns = SimNS(k, net)
    box = []

    def main():
        box.append(prog(ns))
    k.spawn(main, 'prog', required=True)
    try:
        out = k.run()
    finally:
        O.set_kernel(None)
    if out.status != 'completed' or out.exceptions:
        return ('#' + out.status, tuple(sorted((n, repr(e)) for n, e in out.exceptions.items())))
    return box[0]


def selftest(real=True):
    """Returns (ok, report list)."""
    report, ok = [], True
    for name, prog, allowed, on_real in PROGRAMS:
        outs, n, complete = all_schedules(lambda ch: run_sim(prog, ch), limit=20000)
        got = set(outs)
        entry = {'program': name, 'schedules': n, 'complete': complete, 'sim_outcomes': sorted(map(repr, got))}
        if got != allowed or not complete:
            ok = False
            entry['error'] = f'simulated outcomes {sorted(map(repr, got))} != allowed {sorted(map(repr, allowed))}'
        if real and on_real:
            try:
                ro = prog(RealNS())
            except Exception as e:  # noqa
                ro = ('#error', repr(e))
            entry['real_outcome'] = repr(ro)
            if ro not in got:
                ok = False
                entry['error'] = entry.get('error', '') + f' real-thread outcome {ro!r} is not among the simulated ones'
        report.append(entry)
    return ok, report


_CACHE = {}


def ensure(real=False):
    """Raises Inconclusive (exit 2) if the simulator misrepresents the primitives. Cached per process."""
    from vf.common.core import Inconclusive
    if real in _CACHE:
        ok, report = _CACHE[real]
    else:
        ok, report = _CACHE.setdefault(real, selftest(real))
    if not ok:
        bad = [e for e in report if 'error' in e]
        raise Inconclusive(f'simulation fidelity self-test failed: {bad[:2]}')
    return report


if __name__ == '__main__':
    import json
    import sys
    ok, rep = selftest(real='--no-real' not in sys.argv)
    print(json.dumps(rep, indent=1))
    print('SELFTEST', 'ok' if ok else 'FAILED', 'schedules', sum(e['schedules'] for e in rep))
    sys.exit(0 if ok else 2)
