"""Child process of the real operator-interrupt check (C13): runs the unmodified table manager in the MAIN thread of its own
process over real loopback TCP, exactly as `python -m bridge_env.network_bridge.server` would, except that the board
settings come from a scenario file and the 1-second pauses are shortened.  The parent plays the four seats and sends a
real SIGINT (what Ctrl-C does) at a scripted point.

usage: python -m vf.sim.realserver <spec.json>     spec = {"repo":..., "port":..., "out":..., "scenario": {...}}"""
import json
import pathlib
import sys
import time
import types


def main():
    spec = json.load(open(sys.argv[1]))
    sys.path.insert(0, spec['repo'])
    from vf.common import core
    core.REPO = spec['repo']
    core.setup_paths()
    from bridge_env.network_bridge import server as SV
    from vf.sim.session import make_settings
    SV.time = types.SimpleNamespace(sleep=lambda secs: time.sleep(0), time=time.time)
    with SV.Server(ip_address='127.0.0.1', port=spec['port'], output_file_path=pathlib.Path(spec['out']),
                   board_settings=make_settings(spec['scenario'])) as server:
        print('LISTENING-SOON', flush=True)
        server.run()
    print('SERVER-RETURNED', flush=True)


if __name__ == '__main__':
    main()
