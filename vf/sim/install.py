"""Installs the simulated primitives into bridge_env's network modules from outside (no repository change)
and restores the originals afterwards."""
from __future__ import annotations

import logging
import types

from vf.sim import objects as O
from vf.sim.kernel import Kernel

_SYNC_NAMES = {'Event': O.SimEvent, 'Barrier': O.SimBarrier, 'Lock': O.SimLock, 'RLock': O.SimRLock,
               'Condition': O.SimCondition, 'Semaphore': O.SimSemaphore, 'BoundedSemaphore': O.SimSemaphore}
_QUEUE_NAMES = {'Queue': O.SimQueue, 'SimpleQueue': O.SimQueue, 'LifoQueue': None}


class Installed:
    def __init__(self, kernel: Kernel, net: O.Network):
        self.kernel, self.net = kernel, net
        self._saved = []

    def _set(self, obj, name, value):
        missing = object()
        old = obj.__dict__.get(name, missing) if isinstance(obj, type) else getattr(obj, name, missing)
        self._saved.append((obj, name, old, missing))
        setattr(obj, name, value)

    def install(self):
        import threading as real_threading
        import queue as real_queue
        from bridge_env.network_bridge import server, socket_interface, client
        k = self.kernel
        O.set_kernel(k)
        O._Named._count = 0
        for name, cls in _SYNC_NAMES.items():
            if hasattr(server, name) and getattr(server, name) is getattr(real_threading, name, None):
                self._set(server, name, cls)
        for name, cls in _QUEUE_NAMES.items():
            if cls is not None and hasattr(server, name) and getattr(server, name) is getattr(real_queue, name, None):
                self._set(server, name, cls)
        # `import threading` / `import queue` style
        if getattr(server, 'threading', None) is real_threading:
            shim = types.SimpleNamespace(**{n: getattr(real_threading, n) for n in dir(real_threading) if not n.startswith('__')})
            for name, cls in _SYNC_NAMES.items():
                setattr(shim, name, cls)
            self._set(server, 'threading', shim)
        if getattr(server, 'queue', None) is real_queue:
            shim = types.SimpleNamespace(**{n: getattr(real_queue, n) for n in dir(real_queue) if not n.startswith('__')})
            shim.Queue = O.SimQueue
            shim.SimpleQueue = O.SimQueue
            self._set(server, 'queue', shim)
        # plain threads the server may create besides its seat threads (PlayerThread subclasses the real Thread at import
        # time and is handled below)
        if getattr(server, 'Thread', None) is real_threading.Thread:
            self._set(server, 'Thread', O.SimThread)
        if isinstance(getattr(server, 'threading', None), types.SimpleNamespace):
            server.threading.Thread = O.SimThread
        # real Queue / Event / Barrier objects (subclasses, objects created at import time) are routed to simulated twins
        self._undo_route = O.route_real_primitives()
        self.simtime = O.SimTime()
        if hasattr(server, 'time'):
            self._set(server, 'time', self.simtime)
        if hasattr(client, 'time'):
            self._set(client, 'time', self.simtime)
        self._set(socket_interface, 'socket', O.SocketShim(self.net))
        if hasattr(server, 'socket'):
            self._set(server, 'socket', O.SocketShim(self.net))
        # threads of the server become managed tasks
        PT = server.PlayerThread

        def start(th):
            th._sim_task = k.spawn(th.run, f'seat-thread-{len([t for t in k.tasks if t.name.startswith("seat-thread")])}', required=False)
            k.point('thread.start', th._sim_task.name)

        def join(th, timeout=None):
            t = getattr(th, '_sim_task', None)
            if t is None:
                return
            k.point('thread.join', t.name, pred=lambda: t.state == 'done', timeout_ok=timeout is not None)

        def is_alive(th):
            t = getattr(th, '_sim_task', None)
            k.point('thread.is_alive', t.name if t else None)
            return t is not None and t.state != 'done'

        self._set(PT, 'start', start)
        self._set(PT, 'join', join)
        self._set(PT, 'is_alive', is_alive)
        # silence the bundled client's prints and all logging
        self._set(client, 'print', lambda *a, **kw: None)
        self._set(server, 'print', lambda *a, **kw: None)
        self._log_disabled = logging.root.manager.disable
        logging.disable(logging.CRITICAL)
        return self

    def uninstall(self):
        for obj, name, old, missing in reversed(self._saved):
            if old is missing:
                try:
                    delattr(obj, name)
                except AttributeError:
                    pass
            else:
                setattr(obj, name, old)
        self._saved = []
        if getattr(self, '_undo_route', None):
            self._undo_route()
            self._undo_route = None
        logging.disable(self._log_disabled)
        O.set_kernel(None)

    def __enter__(self):
        return self.install()

    def __exit__(self, *a):
        self.uninstall()
