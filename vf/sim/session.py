"""Session driver: runs bridge_env's Server with four clients (reference clients written here, or the
bundled Client) inside the schedule-owning kernel and returns everything observable."""
from __future__ import annotations

import os
import pathlib
import tempfile
import traceback

from vf.common.core import VERIF_ROOT
from vf.common import be
from vf.model import auction as A, play as P, protocol as PR
from vf.sim import objects as O
from vf.sim.install import Installed
from vf.sim.kernel import Kernel, make_chooser, Kill

ADDR = ('sim-host', 2000)
ADDR2 = ('sim-host', 2001)


class ClientFailure(Exception):
    pass


class LineConn:
    """The reference client's own framing over a simulated socket."""

    def __init__(self, sock, log):
        self.sock, self.buf, self.log = sock, bytearray(), log

    def send(self, text):
        self.log.append(('>', text))
        self.sock.sendall(text.encode('utf-8') + b'\r\n')

    def recv(self):
        while True:
            i = self.buf.find(b'\r\n')
            if i >= 0:
                line = bytes(self.buf[:i]).decode('utf-8', 'replace')
                del self.buf[:i + 2]
                self.log.append(('<', line))
                return line
            d = self.sock.recv(4096)
            if d == b'':
                self.log.append(('<', None))
                raise ClientFailure('end-of-stream from server')
            self.buf += d


class Fmt:
    """Per-session formatting choices of a conforming client (all generated)."""

    def __init__(self, spec):
        self.case = spec.get('case', 'asis')
        self.mask = spec.get('mask', 0)
        self.blanks = spec.get('blanks', 0)
        self.suit_first = spec.get('suit_first', [False] * 4)
        self.alerts = spec.get('alerts', {})     # {"board:callindex": suffix}

    def ready(self, s):
        return PR.fmt_blanks(PR.fmt_case(s, self.case, self.mask), self.blanks)

    def action(self, s):
        return PR.fmt_case(s, self.case, self.mask)


def board_facts(b):
    """Model facts of a scripted board: contract, declarer, passed out."""
    res = A.result(b['dealer'], b['calls'])
    return res


def ref_client(seat, team, scenario, net, log, fault=None, state=None, sock=None, addr=None):
    """A conforming protocol client following the scenario's script (independent of the bundled Client).
    fault: None or {'board': k, 'phase': 'auction'|'play', 'pos': j, 'seat': s, 'text': str} - the offending
    message replaces the scripted one; afterwards the client only reads until the server hangs up."""
    fmt = Fmt(scenario.get('fmt', {}))
    sock = sock if sock is not None else O.SimSocket(net)
    sock.connect(addr or ADDR)
    c = LineConn(sock, log)
    me = PR.FORMAL[seat]
    state = state if state is not None else {}
    try:
        # letter case is varied around the quoted team name, never inside it
        c.send(fmt.action('Connecting ') + f'"{team}"' +
               fmt.action(f' as {me} using protocol version {scenario.get("version", 18)}'))
        c.recv()                                             # "<Seat> <team> seated"
        state['seated'] = True
        c.send(fmt.ready(f'{me} ready for teams'))
        c.recv()                                             # Teams line
        c.send(fmt.ready(f'{me} ready to start'))
        line = c.recv()                                      # Start of board
        for bi, b in enumerate(scenario['boards']):
            if not PR.is_start_of_board(line):
                raise ClientFailure(f'expected Start of board, got {line!r}')
            c.send(fmt.ready(f'{me} ready for deal'))
            c.recv()                                         # board header
            c.send(fmt.ready(f'{me} ready for cards'))
            c.recv()                                         # own cards
            dealer = b['dealer']
            for i, call in enumerate(b['calls']):
                actor = (dealer + i) % 4
                if actor == seat:
                    text = fmt.action(PR.call_text(seat, call)) + fmt.alerts.get(f'{bi}:{i}', '')
                    if fault and fault['board'] == bi and fault['phase'] == 'auction' and fault['pos'] == i:
                        _offend(c, fault)
                        return
                    c.send(text)
                else:
                    c.send(fmt.ready(f"{me} ready for {PR.FORMAL[actor]}'s bid"))
                    c.recv()
            res = A.result(dealer, b['calls'])
            if res is not None:
                bid, dbl, decl = res
                dummy = (decl + 2) % 4
                m = P.Play(decl, bid % 5)
                for j, card in enumerate(b['cards']):
                    actor = m.turn
                    first = len(m.trick) == 0
                    tn = m.trick_num
                    if (actor == seat and seat != dummy) or (actor == dummy and seat == decl):
                        if first:
                            c.recv()                         # "<Seat> to lead" / "Dummy to lead"
                        text = fmt.action(PR.card_text(actor, card, fmt.suit_first[seat]))
                        if fault and fault['board'] == bi and fault['phase'] == 'play' and fault['pos'] == j:
                            _offend(c, fault)
                            return
                        c.send(text)
                    else:
                        who = 'dummy' if actor == dummy else PR.FORMAL[actor]
                        c.send(fmt.ready(f"{me} ready for {who}'s card to trick {tn}"))
                        c.recv()
                    m.play(card)
                    if j == 0 and seat != dummy:
                        c.send(fmt.ready(f'{me} ready for dummy'))
                        c.recv()                             # dummy's cards
            line = c.recv()                                  # Start of board / End of session
        if not PR.is_end_of_session(line):
            raise ClientFailure(f'expected End of session, got {line!r}')
        state['ended'] = True
        if seat in (scenario.get('linger') or ()) and state.get('linger_wait') is not None:
            state['linger_wait']()          # a conforming client need not hang up at once: it keeps the connection open
    finally:
        sock.close()


def _offend(c, fault):
    """The scripted fault: an offending message, or (real operator-interrupt check) an action performed instead of the
    seat's message while the table manager waits for it."""
    if callable(fault.get('action')):
        fault['action']()
    else:
        c.send(fault['text'])
    _drain(c)


def _drain(c):
    """After an offending message: read whatever the server still sends until it hangs up."""
    try:
        for _ in range(200):
            c.recv()
    except (ClientFailure, OSError):
        pass


class Result:
    pass


STALE_LOG = '{"logs": [\n' + ',\n'.join('{"board_id": "old-%d", "contract": "Passed_out", "note": "%s"}' % (i, 'x' * 300) for i in range(120)) + '\n]}'


def seed_for_server_deals(scenario):
    """Boards that leave the deal to the table manager are dealt with the global `random` module by the main thread, in
    board order: seeded from the scenario, the deals are a function of the scenario alone (not of the schedule)."""
    if any(b.get('server_deals') for b in scenario['boards']) or any(b.get('server_deals') for b in (scenario.get('table2') or {}).get('boards', [])):
        import random
        from vf.common.core import h64
        random.seed(h64([b['id'] for b in scenario['boards']] + [len(scenario['boards'])]))


def make_settings(scenario):
    from bridge_env.data_handler.abstract_classes import BoardSetting
    out = []
    for b in scenario['boards']:
        dda = None
        if b.get('dda') is not None:
            dda = {be.SEAT[s]: {be.SUIT[k]: b['dda'][s][k] for k in range(5)} for s in range(4)}
        out.append(BoardSetting(hands=None if b.get('server_deals') else be.hands_from_owner(b['owner']), dealer=be.SEAT[b['dealer']],
                                vul=be.VUL[b['vul']], board_id=b['id'], dda=dda))
    return out


def _spawn_table(kernel, net, server, scenario, addr, res, clients, fault, clients_required, tag):
    """Spawns the table manager of one table and its four clients as managed tasks; returns the main task."""
    def server_main():
        try:
            with server:
                server.run()
        except Kill:
            raise
        except BaseException as e:  # noqa: the table manager abandoned the session
            res.server_exc = e
            res.server_tb = traceback.format_exc()

    main_task = kernel.spawn(server_main, 'main' + tag, required=True)
    for s_ in range(4):
        res.client_state[s_]['linger_wait'] = lambda: kernel.point('linger', None, pred=lambda: main_task.state == 'done', timeout_ok=True)
    teams = scenario['teams']
    for seat in scenario.get('arrival', [0, 1, 2, 3]):
        team = teams[seat % 2]
        if clients is not None:
            fn = clients[seat]
        else:
            def fn(seat=seat, team=team):
                ref_client(seat, team, scenario, net, res.client_logs[seat],
                           fault=fault if (fault and fault.get('seat') == seat) else None,
                           state=res.client_state[seat], addr=addr)

        last = seat == list(scenario.get('arrival', [0, 1, 2, 3]))[-1]

        def wrapped(seat=seat, fn=fn, last=last):
            try:
                # a client is started once the table manager is listening (a refused connection attempt
                # before that is not part of any property)
                kernel.point('await-listener', None,
                             pred=lambda: net.listeners.get(addr) is not None and net.listeners[addr].listening)
                if last and scenario.get('intruders'):
                    kernel.point('await-intruders', None, pred=lambda: res.intruders_done())
                fn()
            except Kill:
                raise
            except BaseException as e:  # noqa
                res.client_exc[seat] = e
        kernel.spawn(wrapped, f'client{tag}-{A.SEATS[seat]}', required=clients_required)
    return main_task


def run_session(scenario, schedule, clients=None, fault=None, kernel_hook=None, max_steps=400000, keep_log=False,
                clients_required=True, trace=None, server_obj=None):
    """Runs one simulated session. clients: optional list of 4 callables (seat -> task function) overriding the
    reference clients.  Returns a Result with: outcome (kernel Outcome), server_exc, client_exc {seat: exc},
    lines {conn label: [(dir, text)]}, sends (raw), output_text (or None), accept_order, client_state."""
    from bridge_env.network_bridge.server import Server
    workdir = os.path.join(VERIF_ROOT, '.work', 'sessions')
    os.makedirs(workdir, exist_ok=True)
    fd, out_path = tempfile.mkstemp(suffix='.json', dir=workdir)
    os.close(fd)
    # the output path already holds the (longer) complete log of an earlier session, as output.json does on a second run:
    # "File will be overwritten"
    with open(out_path, 'w') as f:
        f.write(STALE_LOG)
    net = O.Network(split=scenario.get('split'))
    kernel = Kernel(schedule if callable(schedule) else make_chooser(schedule), max_steps=max_steps)
    kernel.keep_log = keep_log
    kernel.eager_timeouts = bool(schedule.get('eager', True)) if isinstance(schedule, dict) else bool(getattr(schedule, 'eager', True))
    if trace is not None:            # line-level scheduling inside selected functions of the server (files, function names)
        kernel.trace_files, kernel.trace_funcs = tuple(trace[0]), tuple(trace[1])
    if kernel_hook is not None:
        kernel_hook(kernel)
    res = Result()
    res.client_logs = {s: [] for s in range(4)}
    res.client_exc = {}
    res.client_state = {s: {} for s in range(4)}
    res.server_exc = None
    res.server_tb = None
    inst = Installed(kernel, net)
    inst.install()
    seed_for_server_deals(scenario)
    try:
        if server_obj is None:
            server = Server(ip_address=ADDR[0], port=ADDR[1], output_file_path=pathlib.Path(out_path),
                            board_settings=make_settings(scenario))
        else:
            # a Server object that has already hosted a session hosts another one (its public attributes say what and where)
            server = server_obj
            server.board_settings, server.output_file_path = make_settings(scenario), pathlib.Path(out_path)
        res.server = server

        main_task = _spawn_table(kernel, net, server, scenario, ADDR, res, clients, fault, clients_required, '')
        if scenario.get('table2') is not None:
            # a second table in the same process (another Server object on another port, its own four clients and output
            # file), running concurrently with the first under the same schedule: every table is a session of its own
            sc2 = scenario['table2']
            fd2, out2 = tempfile.mkstemp(suffix='.json', dir=workdir)
            os.close(fd2)
            t2 = res.table2 = Result()
            t2.out_path = out2
            t2.client_logs = {s: [] for s in range(4)}
            t2.client_exc, t2.client_state = {}, {s: {} for s in range(4)}
            t2.server_exc = t2.server_tb = None
            server2 = Server(ip_address=ADDR2[0], port=ADDR2[1], output_file_path=pathlib.Path(out2), board_settings=make_settings(sc2))
            _spawn_table(kernel, net, server2, sc2, ADDR2, t2, None, None, clients_required, '2')
        # inadmissible connection attempts during admission (wrong version / seat already taken / other team than the
        # seated partner): each connects once the seat it refers to is seated, and the last conforming client waits
        # until all of them have their answer - so the accept loop is still running for every one of them
        res.intruder_logs = []
        pending = []
        for n_i, it in enumerate(scenario.get('intruders') or []):
            log_i = []
            res.intruder_logs.append(log_i)
            flag = {'done': False}
            pending.append(flag)

            def intruder(it=it, log_i=log_i, flag=flag):
                try:
                    kernel.point('await-listener', None,
                                 pred=lambda: net.listeners.get(ADDR) is not None and net.listeners[ADDR].listening)
                    if it.get('after') is not None:
                        kernel.point('await-seated', None, pred=lambda: res.client_state[it['after']].get('seated'))
                    sock = O.SimSocket(net)
                    sock.connect(ADDR)
                    c = LineConn(sock, log_i)
                    try:
                        c.send(f'Connecting "{it["team"]}" as {PR.FORMAL[it["seat"]]} using protocol version {it["version"]}')
                        for _ in range(5):
                            c.recv()
                    except ClientFailure:
                        pass
                    finally:
                        sock.close()
                except Kill:
                    raise
                finally:
                    flag['done'] = True
            kernel.spawn(intruder, f'intruder-{n_i}', required=False)
        res.intruders_done = lambda: all(f['done'] for f in pending)
        res.outcome = kernel.run()
    finally:
        inst.uninstall()
    res.net = net
    res.kernel = kernel
    try:
        with open(out_path, 'r') as f:
            res.output_text = f.read()
    except OSError:
        res.output_text = None
    try:
        os.unlink(out_path)
    except OSError:
        pass
    t2 = getattr(res, 'table2', None)
    if t2 is not None:
        t2.outcome, t2.net, t2.kernel = res.outcome, net, kernel
        try:
            with open(t2.out_path, 'r') as f:
                t2.output_text = f.read()
        except OSError:
            t2.output_text = None
        try:
            os.unlink(t2.out_path)
        except OSError:
            pass
    return res
