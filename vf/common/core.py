"""Shared machinery: violations, per-shard statistics, Hypothesis driver, hashing.

Everything here is independent of bridge_env.  Property modules (vf/props/cNN.py)
use it to state checks; vf/common/runner.py uses it to run, merge and report.
"""
from __future__ import annotations

import hashlib
import json
import os
import sys
import traceback
from collections import Counter
from typing import Any, Callable, Dict, List, Optional

VERIF_ROOT = os.path.dirname(os.path.dirname(os.path.dirname(os.path.abspath(__file__))))
REPO = os.environ.get('VERIF_REPO', '/repo')


def setup_paths() -> None:
    """Import the code under test from VERIF_REPO (default /repo): the current
    working tree, never an installed copy."""
    deps = os.path.join(VERIF_ROOT, '.deps')
    for p in (deps, REPO):
        if p in sys.path:
            sys.path.remove(p)
    sys.path.insert(0, deps)
    sys.path.insert(0, REPO)


class Violation(AssertionError):
    """The property under test does not hold for `case`.

    clause: short stable name of the oracle clause that failed (bucketing key)
    case:   JSON-able explicit description of the generated case (replayable)
    detail: JSON-able observed/expected values
    """

    def __init__(self, clause: str, case: Any, detail: Any = None):
        super().__init__(clause)
        self.clause = clause
        self.case = case
        self.detail = detail

    def record(self) -> dict:
        return {'clause': self.clause, 'case': jsonable(self.case),
                'detail': jsonable(self.detail)}


class Inconclusive(Exception):
    """Budget hit / environment problem: never a violation (exit 2)."""


def jsonable(x: Any) -> Any:
    if isinstance(x, int) and not isinstance(x, bool) and abs(x) >= 1 << 1000:
        return {'__bigint_hex__': hex(x)}       # beyond CPython's int->str digit limit; hex has no limit
    if x is None or isinstance(x, (bool, int, float, str)):
        return x
    if isinstance(x, bytes):
        return {'__bytes__': x.hex()}
    if isinstance(x, dict):
        return {str(k): jsonable(v) for k, v in x.items()}
    if isinstance(x, (list, tuple)):
        return [jsonable(v) for v in x]
    if isinstance(x, (set, frozenset)):
        return sorted((jsonable(v) for v in x), key=repr)
    return repr(x)


def fresh(s: str) -> str:
    """An equal but NOT identical string object: texts reach a parser from files, sockets and JSON, never as the very object
    a writer returned (a parser comparing with `is` would pass a round trip on the same object only)."""
    return (s + '\0')[:-1]


def unbig(x: Any) -> Any:
    """Inverse of jsonable() for huge integers inside replay cases."""
    if isinstance(x, dict) and '__bigint_hex__' in x:
        return int(x['__bigint_hex__'], 16)
    return x


def h64(x: Any) -> int:
    """Stable 64-bit hash of a JSON-able value (independent of PYTHONHASHSEED)."""
    s = json.dumps(jsonable(x), sort_keys=True, separators=(',', ':'))
    return int.from_bytes(hashlib.blake2b(s.encode('utf-8'), digest_size=8).digest(), 'big')


class Stats:
    """Per-shard counters; merged by the runner."""

    MAX_SAMPLES = 6

    def __init__(self) -> None:
        self.evaluations = 0
        self.nontrivial: set = set()
        self.classes: Counter = Counter()
        self.samples: List[Any] = []
        self.excluded: Counter = Counter()
        self.notes: List[str] = []

    def evaluated(self, n: int = 1) -> None:
        self.evaluations += n

    def nt(self, key: Any, sample: Any = None) -> None:
        k = h64(key)
        if k not in self.nontrivial:
            self.nontrivial.add(k)
            if sample is not None and len(self.samples) < self.MAX_SAMPLES:
                self.samples.append(jsonable(sample))

    def cls(self, name: str, n: int = 1) -> None:
        self.classes[name] += n

    def sample(self, s: Any) -> None:
        if len(self.samples) < self.MAX_SAMPLES:
            self.samples.append(jsonable(s))

    def dump(self) -> dict:
        return {'evaluations': self.evaluations, 'nontrivial': sorted(self.nontrivial),
                'classes': dict(self.classes), 'samples': self.samples,
                'excluded': dict(self.excluded), 'notes': self.notes}


def orders(items, seed: int):
    """The same finite domain in three deterministic orders - as listed, reversed, and strided (a permutation derived from
    the seed): a complete enumeration visited only once in a fixed order cannot see answers that depend on what was
    asked before (caches keyed too coarsely, state shared between calls)."""
    items = list(items)
    n = len(items)
    yield 'forward', items
    yield 'reverse', items[::-1]
    if n > 2:
        import math
        stride = (seed * 7919 + 104729) % n
        while stride < 2 or math.gcd(stride, n) != 1:
            stride = (stride + 1) % n or 2
        yield 'strided', [items[(i * stride + seed) % n] for i in range(n)]


def guard(clause: str, case: Any, fn: Callable, *a, **kw):
    """Call code under test; any exception it raises is a violation of `clause`
    (use only where the property says the call must succeed)."""
    try:
        return fn(*a, **kw)
    except Violation:
        raise
    except Exception as e:  # noqa
        tb = traceback.extract_tb(e.__traceback__)
        where = ''
        for fr in reversed(tb):
            if 'bridge_env' in fr.filename:
                where = f'{os.path.basename(fr.filename)}:{fr.lineno}:{fr.name}'
                break
        raise Violation(clause, case, {'exception': f'{type(e).__name__}: {e}'[:500],
                                       'where': where}) from e


def must_raise(clause: str, case: Any, fn: Callable, *a, **kw) -> Exception:
    """The property says this call is refused with an error (an Exception)."""
    try:
        r = fn(*a, **kw)
    except Exception as e:  # noqa
        return e
    raise Violation(clause, case, {'returned': repr(r)[:200], 'expected': 'an exception'})


def check(cond: bool, clause: str, case: Any, detail: Any = None) -> None:
    if not cond:
        raise Violation(clause, case, detail() if callable(detail) else detail)


# ---------------------------------------------------------------------------
# Hypothesis driver


SHRINK_BUDGET_S = {False: float(os.environ.get('VERIF_SHRINK_QUICK_S', '12')), True: float(os.environ.get('VERIF_SHRINK_THOROUGH_S', '240'))}


class _Budget:
    """Time-bounded shrinking.  Hypothesis' shrinker has no time limit of its own below its hard 5-minute cap, so once the
    first failure has been seen and the budget is used up, every further call returns at once as if it had passed: the
    shrinker then finds no more improvements and stops within milliseconds.  The wall clock decides only how far a
    failure is minimised, never whether a run passes: the smallest failing case seen so far is what gets reported."""

    def __init__(self, seconds):
        import time
        self.time = time.time
        self.seconds = seconds
        self.t_first = None
        self.last = None

    def run(self, fn, *a, **kw):
        if self.t_first is not None and self.time() - self.t_first > self.seconds:
            return None
        try:
            return fn(*a, **kw)
        except Violation as v:
            if self.t_first is None:
                self.t_first = self.time()
            self.last = v
            raise


def run_hypothesis(test_fn: Callable, strategies: Dict[str, Any], seed: int,
                   max_examples: int, shrink: bool, examples: Optional[List[dict]] = None,
                   ) -> Optional[Violation]:
    """Run test_fn(**drawn) over generated cases; return the shrunk Violation or None.  Pass/fail is a pure function of
    (code, seed, max_examples); `shrink` selects the shrinking budget (quick: seconds, thorough: minutes)."""
    import hypothesis
    from hypothesis import HealthCheck, Phase, Verbosity, given, settings

    phases = [Phase.explicit, Phase.generate, Phase.shrink]
    st = settings(max_examples=max_examples, database=None, deadline=None,
                  report_multiple_bugs=False, phases=phases,
                  suppress_health_check=list(HealthCheck), verbosity=Verbosity.quiet,
                  print_blob=False)
    budget = _Budget(SHRINK_BUDGET_S[bool(shrink)])

    def body(**kw):
        budget.run(test_fn, **kw)

    t = given(**strategies)(body)
    for ex in (examples or []):
        t = hypothesis.example(**ex)(t)
    t = st(t)
    t = hypothesis.seed(seed)(t)
    try:
        t()
    except Violation as v:
        return v
    except Exception:
        if budget.last is not None:      # Hypothesis reports "flaky" when the budget cut the shrink short
            return budget.last
        raise
    return None


def run_machine(machine_cls, seed: int, max_examples: int, steps: int, shrink: bool
                ) -> Optional[Violation]:
    import hypothesis
    from hypothesis import HealthCheck, Phase, Verbosity, settings
    from hypothesis.stateful import run_state_machine_as_test
    phases = [Phase.explicit, Phase.generate]
    if shrink:
        phases.append(Phase.shrink)
    st = settings(max_examples=max_examples, stateful_step_count=steps, database=None,
                  deadline=None, report_multiple_bugs=False, phases=phases,
                  suppress_health_check=list(HealthCheck), verbosity=Verbosity.quiet,
                  print_blob=False)
    try:
        run_state_machine_as_test(hypothesis.seed(seed)(machine_cls), settings=st)
    except Violation as v:
        return v
    return None
