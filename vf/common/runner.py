"""Entry point:  python -m vf.common.runner CNN --tier quick|thorough
                 python -m vf.common.runner CNN --replay FILE

Exit 0: property held on everything explored (KNOWN-FINDING lines possible)
Exit 1: `VIOLATION property=CNN replay=<path>` printed for each unlisted failure bucket
Exit 2: harness error / inconclusive (never a VIOLATION line)
"""
from __future__ import annotations

import argparse
import glob
import importlib
import json
import multiprocessing as mp
import os
import sys
import time
import traceback
from collections import Counter

from .core import VERIF_ROOT, REPO, Stats, Violation, Inconclusive, h64, jsonable, setup_paths

NPROC = int(os.environ.get('VERIF_NPROC', '16'))


def _load(pid: str):
    setup_paths()
    return importlib.import_module(f'vf.props.{pid.lower()}')


_CORES = None   # mp.Queue of free core ids (inherited through fork)


def _pin():
    """Pin this worker to one free core: the simulated sessions hand control between OS threads thousands of
    times per second, which is several times faster when all threads of a process share a core."""
    if _CORES is None or not hasattr(os, 'sched_setaffinity'):
        return None
    try:
        core = _CORES.get(timeout=5)
        os.sched_setaffinity(0, {core})
        return core
    except Exception:  # noqa
        return None


SHARD_WATCHDOG_S = {'quick': int(os.environ.get('VERIF_WATCHDOG_QUICK_S', '900')), 'thorough': int(os.environ.get('VERIF_WATCHDOG_THOROUGH_S', '14400'))}


def _watchdog(tier):
    """A shard that is still running after this many seconds is stopped: the harness itself is stuck (e.g. repository
    code blocked on a real primitive the simulator does not own).  That is 'inconclusive' (exit 2), never a violation."""
    import signal

    def on_alarm(signum, frame):
        raise Inconclusive(f'shard watchdog: no result after {SHARD_WATCHDOG_S[tier]} s (harness stuck)')
    try:
        signal.signal(signal.SIGALRM, on_alarm)
        signal.alarm(SHARD_WATCHDOG_S[tier])
    except Exception:  # noqa
        pass


def _shard_entry(args):
    pid, spec, seed, tier = args
    t0 = time.time()
    core = _pin()
    _watchdog(tier)
    try:
        res = _shard_body(pid, spec, seed, tier, t0)
        res['index'] = seed % 1000
        return res
    finally:
        if core is not None:
            _CORES.put(core)


def _shard_body(pid, spec, seed, tier, t0):
    try:
        mod = _load(pid)
        stats = Stats()
        fails = mod.run_shard(spec, seed, tier, stats) or []
        recs = [f.record() if isinstance(f, Violation) else f for f in fails]
        return {'spec': spec, 'stats': stats.dump(), 'failures': recs, 'wall': time.time() - t0}
    except Inconclusive as e:
        return {'spec': spec, 'inconclusive': str(e), 'wall': time.time() - t0}
    except BaseException:  # noqa  harness error
        return {'spec': spec, 'error': traceback.format_exc(), 'wall': time.time() - t0}


def load_known(pid: str):
    path = os.path.join(VERIF_ROOT, 'KNOWN_FINDINGS.json')
    if not os.path.exists(path):
        return []
    with open(path) as f:
        data = json.load(f)
    return [e for e in data.get('findings', []) if e.get('property') == pid]


def _write_replay(pid: str, rec: dict) -> str:
    d = os.path.join(VERIF_ROOT, '.work', pid)
    os.makedirs(d, exist_ok=True)
    slug = ''.join(ch if ch.isalnum() else '_' for ch in rec['clause'])[:40]
    name = f"replay-{slug}-{h64(rec['case']):016x}.json"
    path = os.path.join(d, name)
    with open(path, 'w') as f:
        json.dump({'property': pid, **rec}, f, indent=1, sort_keys=True)
    return path


def _classify(mod, pid, failures, known):
    """Split failure records into (unlisted, {finding_id: [records]}) using the
    recognisers of findings whose status is 'known'.  'fixed' entries suppress nothing."""
    recognisers = getattr(mod, 'RECOGNISERS', {})
    unlisted, listed = [], {}
    for rec in failures:
        hit = None
        for e in known:
            if e.get('status') != 'known':
                continue
            r = recognisers.get(e.get('recogniser', ''))
            if r is not None and r(rec):
                hit = e['id']
                break
        if hit is None:
            unlisted.append(rec)
        else:
            listed.setdefault(hit, []).append(rec)
    return unlisted, listed


def run_replays(mod, pid, known):
    """Replay tier: committed witnesses. Returns (failure records, n_run)."""
    fails, n = [], 0
    for path in sorted(glob.glob(os.path.join(VERIF_ROOT, 'replays', f'{pid}-*.json'))):
        with open(path) as f:
            rec = json.load(f)
        n += 1
        out = mod.replay(rec)
        if out is not None:
            out = out.record() if isinstance(out, Violation) else out
            out['from_replay'] = os.path.basename(path)
            fails.append(out)
    return fails, n


def main(argv=None) -> int:
    ap = argparse.ArgumentParser()
    ap.add_argument('pid')
    ap.add_argument('--tier', default=os.environ.get('VERIF_TIER', 'quick'),
                    choices=['quick', 'thorough'])
    ap.add_argument('--replay')
    ap.add_argument('--only', help='run only shards whose kind matches (debugging)')
    a = ap.parse_args(argv)
    pid = a.pid.upper()
    seed = int(os.environ.get('VERIF_SEED', '1') or '1')
    t0 = time.time()
    try:
        mod = _load(pid)
    except Exception:
        traceback.print_exc()
        print(f'HARNESS-ERROR property={pid} cannot import check module', flush=True)
        return 2
    known = load_known(pid)

    if a.replay:
        with open(a.replay) as f:
            rec = json.load(f)
        try:
            out = mod.replay(rec)
        except Exception:
            traceback.print_exc()
            return 2
        if out is None:
            print(f'REPLAY-PASS property={pid} file={a.replay}')
            return 0
        out = out.record() if isinstance(out, Violation) else out
        print(json.dumps(out, indent=1)[:4000])
        print(f'VIOLATION property={pid} replay={os.path.abspath(a.replay)}')
        return 1

    selftest_report = None
    if getattr(mod, 'USES_SIM', False):
        # fidelity self-test of the simulated primitives (DESIGN.md 4.5): a failure is a harness error, never a violation
        try:
            from vf.sim import selftest
            selftest_report = selftest.ensure(real=True)
        except Inconclusive as e:
            print(f'HARNESS-ERROR property={pid} {e}', flush=True)
            return 2
        except Exception:
            traceback.print_exc()
            print(f'HARNESS-ERROR property={pid} simulation self-test crashed', flush=True)
            return 2

    failures, errors, inconclusive = [], [], []
    merged = Stats()
    nt: set = set()
    try:
        rf, n_replays = run_replays(mod, pid, known)
        failures.extend(rf)
    except Exception:
        traceback.print_exc()
        print(f'HARNESS-ERROR property={pid} replay tier crashed', flush=True)
        return 2

    plan = mod.plan(a.tier)
    if a.only:
        plan = [s for s in plan if a.only in s.get('kind', '')]
    jobs = [(pid, spec, seed * 1000 + i, a.tier) for i, spec in enumerate(plan)]
    walls = []
    if jobs:
        ctx = mp.get_context('fork')
        global _CORES
        try:
            cores = sorted(os.sched_getaffinity(0))
        except AttributeError:
            cores = []
        if cores:
            _CORES = ctx.Queue()
            for c in (cores * NPROC)[:max(NPROC, len(cores))]:
                _CORES.put(c)
        with ctx.Pool(processes=min(NPROC, len(jobs)), maxtasksperchild=1) as pool:
            results = list(pool.imap_unordered(_shard_entry, jobs, chunksize=1))
            # merge in plan order so that samples and reported failures do not depend on completion order
            results.sort(key=lambda r: r.get('index', 0))
            for res in results:
                walls.append((res['spec'].get('kind', '?'), round(res['wall'], 1)))
                if 'error' in res:
                    errors.append(res)
                    continue
                if 'inconclusive' in res:
                    inconclusive.append(res)
                    continue
                s = res['stats']
                merged.evaluations += s['evaluations']
                nt.update(s['nontrivial'])
                merged.classes.update(s['classes'])
                merged.excluded.update(s['excluded'])
                for x in s['samples']:
                    if len(merged.samples) < 8:
                        merged.samples.append(x)
                merged.notes.extend(s['notes'])
                failures.extend(res['failures'])

    unlisted, listed = _classify(mod, pid, failures, known)
    # one VIOLATION per bucket (clause + innermost repo frame)
    buckets = {}
    for rec in unlisted:
        key = (rec['clause'], (rec.get('detail') or {}).get('where', '') if isinstance(rec.get('detail'), dict) else '')
        buckets.setdefault(key, rec)

    wall = time.time() - t0
    ev = {
        'property_id': pid, 'tier': a.tier, 'seed': seed, 'level': mod.LEVEL,
        'coverage': {
            'evaluations': merged.evaluations,
            'distinct_nontrivial': len(nt),
            'rule': mod.RULE,
            'samples': merged.samples if merged.samples else ['(no sample recorded)'],
            'classes': dict(sorted(merged.classes.items())),
            'excluded_by_construction': dict(merged.excluded),
            'exhaustive': bool(getattr(mod, 'EXHAUSTIVE', False)),
            'replays_run': n_replays,
            'shards': len(jobs),
            'shard_wall_s': sorted(walls, key=lambda x: -x[1])[:8],
            'known_findings_seen': {k: len(v) for k, v in listed.items()},
            'repo': REPO,
        },
        'assumptions': list(getattr(mod, 'ASSUMPTIONS', [])),
        'wall_s': round(wall, 2),
        'violations': len(buckets),
    }
    if merged.notes:
        ev['coverage']['notes'] = merged.notes[:20]
    if selftest_report is not None:
        ev['coverage']['sim_selftest'] = {'programs': len(selftest_report), 'schedules_enumerated': sum(e['schedules'] for e in selftest_report),
                                          'all_outcome_sets_equal_cpython_semantics': True, 'real_thread_outcomes_within_simulated': True}
    if errors or inconclusive:
        ev['coverage']['harness_errors'] = len(errors)
        ev['coverage']['inconclusive'] = [r['inconclusive'] for r in inconclusive][:5]
    # evidence/ only ever describes runs against /repo itself; runs against a scratch copy (mutation audit)
    # write theirs under .work/
    evdir = os.path.join(VERIF_ROOT, 'evidence') if os.path.realpath(REPO) == '/repo' else \
        os.path.join(VERIF_ROOT, '.work', 'evidence-scratch')
    os.makedirs(evdir, exist_ok=True)
    with open(os.path.join(evdir, f'{pid}.json'), 'w') as f:
        json.dump(ev, f, indent=1, sort_keys=True)
        f.write('\n')

    for e in known:
        if e.get('status') == 'known' and e['id'] in listed:
            print(f"KNOWN-FINDING: property={pid} {e['id']}: {e['what']}", flush=True)
    for key, rec in sorted(buckets.items()):
        path = _write_replay(pid, rec)
        print(f'  clause={rec["clause"]} detail={json.dumps(rec.get("detail"))[:600]}')
        print(f'VIOLATION property={pid} replay={path}', flush=True)
    print(f'[{pid}] tier={a.tier} seed={seed} evaluations={merged.evaluations} '
          f'distinct_nontrivial={len(nt)} violations={len(buckets)} '
          f'known={sum(len(v) for v in listed.values())} wall={wall:.1f}s', flush=True)
    if buckets:
        return 1
    if errors:
        for r in errors[:3]:
            print(f'HARNESS-ERROR property={pid} shard={r["spec"]}\n{r["error"]}', flush=True)
        return 2
    if inconclusive:
        print(f'INCONCLUSIVE property={pid} {inconclusive[0]["inconclusive"]}', flush=True)
        return 2
    return 0


if __name__ == '__main__':
    sys.exit(main())
