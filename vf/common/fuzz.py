"""Coverage-guided tier: atheris (libFuzzer) drives the SAME Hypothesis test that the in-process tier runs, through
`test.hypothesis.fuzz_one_input`, with bridge_env instrumented for coverage feedback.

Parent side (called from a shard worker):  run_fuzz_shard(pid, spec, seed, stats) starts
    python -m vf.common.fuzz PID TARGET RUNS SEED OUTDIR
as a subprocess (libFuzzer owns the process: it never returns from Fuzz() and `atexit` does not run), then merges the
statistics the child dumped and turns a recorded failure into a Violation record.

Child side: property modules expose  fuzz_target(name, stats) -> (test_fn, strategies)  - the oracle is inside the
target, a crash-only target would check nothing.  The child writes OUTDIR/stats.json every 500 executions and
OUTDIR/failure.json (clause, explicit case, detail) before the exception reaches libFuzzer.  A campaign is pinned only
approximately by -seed/-runs (libFuzzer); the saved explicit case is the reproducible unit and replays without atheris.
"""
from __future__ import annotations

import json
import os
import shutil
import subprocess
import sys
import time

from .core import VERIF_ROOT, Inconclusive, Stats, Violation, jsonable, setup_paths


def run_fuzz_shard(pid, spec, seed, stats: Stats):
    out = os.path.join(VERIF_ROOT, '.work', pid, f'fuzz-{spec["target"]}-{seed}')
    shutil.rmtree(out, ignore_errors=True)
    os.makedirs(os.path.join(out, 'corpus'), exist_ok=True)
    env = dict(os.environ)
    env['PYTHONPATH'] = os.pathsep.join([VERIF_ROOT, os.path.join(VERIF_ROOT, '.deps')])
    env['PYTHONHASHSEED'] = '0'
    runs = max(100, int(spec['runs'] * float(os.environ.get('VERIF_FUZZ_SCALE', '1'))))
    cmd = ['/venv/bin/python', '-m', 'vf.common.fuzz', pid, spec['target'], str(runs), str(seed), out]
    budget = spec.get('timeout_s', 1800)
    t0 = time.time()
    try:
        p = subprocess.run(cmd, cwd=VERIF_ROOT, env=env, capture_output=True, text=True, timeout=budget)
        tail = (p.stdout + p.stderr)[-1500:]
        rc = p.returncode
    except subprocess.TimeoutExpired:
        raise Inconclusive(f'atheris campaign {spec["target"]} exceeded its {budget}s safety net')
    st_path, fail_path = os.path.join(out, 'stats.json'), os.path.join(out, 'failure.json')
    if os.path.exists(st_path):
        with open(st_path) as f:
            d = json.load(f)
        stats.evaluations += d['evaluations']
        stats.nontrivial.update(d['nontrivial'])
        stats.classes.update(d['classes'])
        for x in d['samples']:
            stats.sample(x)
        stats.cls(f'atheris executions ({spec["target"]})', d.get('executions', 0))
        stats.cls(f'atheris corpus entries kept ({spec["target"]})', len(os.listdir(os.path.join(out, 'corpus'))))
    fails = []
    if os.path.exists(fail_path):
        with open(fail_path) as f:
            fails.append(json.load(f))
    elif rc != 0:
        raise Inconclusive(f'atheris campaign {spec["target"]} ended with rc={rc} without a recorded failure: {tail[-400:]}')
    elif not os.path.exists(st_path):
        raise Inconclusive(f'atheris campaign {spec["target"]} wrote no statistics: {tail[-400:]}')
    stats.notes.append(f'atheris {spec["target"]}: runs={runs} seed={seed} wall={time.time() - t0:.0f}s')
    shutil.rmtree(os.path.join(out, 'corpus'), ignore_errors=True)
    return fails


def _fix_bytestring_provider():
    """Hypothesis 6.168's BytestringProvider.draw_integer draws `bits` of the span but compares the raw value with
    [min_value, max_value] without adding min_value: for integers(2, 3) (drawn by every fixed_dictionaries with >= 4 keys,
    which shuffles its keys) no value is ever accepted and the buffer overruns, so such a test is NEVER executed under
    fuzz_one_input.  Replace it (in the fuzzing child only) by the offset version."""
    from hypothesis.internal.conjecture.providers import BytestringProvider

    def draw_integer(self, min_value=None, max_value=None, *, weights=None, shrink_towards=0):
        if min_value is None and max_value is None:
            min_value, max_value = -(2 ** 127), 2 ** 127 - 1
        elif min_value is None:
            min_value = max_value - 2 ** 64
        elif max_value is None:
            max_value = min_value + 2 ** 64
        if min_value == max_value:
            return min_value
        span = max_value - min_value
        bits = span.bit_length()
        v = self._draw_bits(bits)
        while v > span:
            v = self._draw_bits(bits)
        return min_value + v
    BytestringProvider.draw_integer = draw_integer


def _child(pid, target, runs, seed, out):
    setup_paths()
    import atheris
    _fix_bytestring_provider()
    with atheris.instrument_imports(include=['bridge_env']):
        import bridge_env  # noqa
        import bridge_env.data_handler.json_handler.parser  # noqa
        import bridge_env.data_handler.json_handler.writer  # noqa
        import bridge_env.data_handler.pbn_handler.parser  # noqa
        import bridge_env.data_handler.pbn_handler.writer  # noqa
        import bridge_env.network_bridge.socket_interface  # noqa
        import bridge_env.network_bridge.server  # noqa
        import bridge_env.network_bridge.client  # noqa
    import importlib
    from hypothesis import HealthCheck, Verbosity, given, settings
    mod = importlib.import_module(f'vf.props.{pid.lower()}')
    stats = Stats()
    test_fn, strategies = mod.fuzz_target(target, stats)
    n = [0]

    def dump():
        d = stats.dump()
        d['executions'] = n[0]
        tmp = os.path.join(out, 'stats.json.tmp')
        with open(tmp, 'w') as f:
            json.dump(d, f)
        os.replace(tmp, os.path.join(out, 'stats.json'))

    def body(**kw):
        test_fn(**kw)

    t = settings(database=None, deadline=None, suppress_health_check=list(HealthCheck), verbosity=Verbosity.quiet,
                 print_blob=False)(given(**strategies)(body))
    fuzz = t.hypothesis.fuzz_one_input

    def one(data):
        n[0] += 1
        try:
            fuzz(data)
        except Violation as v:
            dump()
            rec = v.record()
            rec['found_by'] = f'atheris target {target}'
            with open(os.path.join(out, 'failure.json'), 'w') as f:
                json.dump(rec, f)
            raise
        if n[0] % 500 == 0 or n[0] >= runs:
            dump()

    # Hypothesis reads the fuzzer's bytes as its source of choices and rejects a buffer that is too short for one case, so
    # an empty corpus leaves libFuzzer with nothing that reaches the code; start from deterministic pseudo-random
    # buffers (a hash stream keyed by the seed - no RNG) of the sizes a case needs.
    import hashlib
    for i in range(48):
        size = [96, 256, 512, 1024, 2048, 4096][i % 6]
        blob = b''.join(hashlib.blake2b(f'{seed}:{i}:{j}'.encode(), digest_size=64).digest() for j in range(size // 64 + 1))[:size]
        with open(os.path.join(out, 'corpus', f'seed-{i:02d}'), 'wb') as f:
            f.write(blob)
    argv = [sys.argv[0], f'-runs={runs}', f'-seed={seed % (2 ** 31 - 1) or 1}', '-max_len=4096', '-print_final_stats=0',
            '-verbosity=0', f'-artifact_prefix={out}/', os.path.join(out, 'corpus')]
    dump()
    atheris.Setup(argv, one)
    atheris.Fuzz()


if __name__ == '__main__':
    _child(sys.argv[1], sys.argv[2], int(sys.argv[3]), int(sys.argv[4]), sys.argv[5])
