"""Boundary between the integer models and bridge_env's value objects.
Members are looked up by *name* only; agreement of the other notations is C15."""
from vf.common.core import setup_paths
setup_paths()
import bridge_env  # noqa: E402
from bridge_env import Bid, Card, Contract, Hands, Pair, Player, Suit, Vul  # noqa: E402
from vf.model import auction as A, play as P  # noqa: E402

SEAT = [Player['N'], Player['E'], Player['S'], Player['W']]
SEAT_IDX = {p: i for i, p in enumerate(SEAT)}
FORMAL = ['North', 'East', 'South', 'West']
BID = [Bid[A.enum_name(c)] for c in range(38)]
BID_IDX = {b: i for i, b in enumerate(BID)}
SUIT = [Suit['C'], Suit['D'], Suit['H'], Suit['S'], Suit['NT']]
SUIT_IDX = {s: i for i, s in enumerate(SUIT)}
CARD = [Card(c % 13 + 2, SUIT[c // 13]) for c in range(52)]
CARD_IDX = {c: i for i, c in enumerate(CARD)}
VUL_NAMES = ['None', 'NS', 'EW', 'Both']
VUL = {'None': Vul['NONE'], 'NS': Vul['NS'], 'EW': Vul['EW'], 'Both': Vul['BOTH']}
VUL_NAME = {v: k for k, v in VUL.items()}
PAIR = [Pair['NS'], Pair['EW']]


def hands_from_owner(owner):
    """owner: list of 52 seat indices (or None for absent) -> Hands"""
    hs = [set(), set(), set(), set()]
    for c, s in enumerate(owner):
        if s is not None:
            hs[s].add(CARD[c])
    return Hands(north_hand=hs[0], east_hand=hs[1], south_hand=hs[2], west_hand=hs[3])


def hands_to_ints(hands):
    return [sorted(CARD_IDX[c] for c in hands[SEAT[s]]) for s in range(4)]


def contract_of(bid, dbl, vul_name, declarer):
    return Contract(final_bid=BID[bid], x=dbl >= 1, xx=dbl == 2, vul=VUL[vul_name],
                    declarer=SEAT[declarer])


def dbl_status(contract):
    return 2 if contract.xx else (1 if contract.x else 0)
