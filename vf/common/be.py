"""Boundary between the integer models and bridge_env's value objects.
Members are looked up by *name* only; agreement of the other notations is C15."""
from vf.common.core import setup_paths
setup_paths()
import bridge_env  # noqa: E402
from bridge_env import Bid, Card, Contract, Hands, Pair, Player, Suit, Vul  # noqa: E402
from vf.model import auction as A, play as P  # noqa: E402

SEAT = [Player['N'], Player['E'], Player['S'], Player['W']]
SEAT_IDX = {p: i for i, p in enumerate(SEAT)}
FORMAL = ['North', 'East', 'South', 'West']
BID = [Bid[A.enum_name(c)] for c in range(38)]
BID_IDX = {b: i for i, b in enumerate(BID)}
SUIT = [Suit['C'], Suit['D'], Suit['H'], Suit['S'], Suit['NT']]
SUIT_IDX = {s: i for i, s in enumerate(SUIT)}
CARD = [Card(c % 13 + 2, SUIT[c // 13]) for c in range(52)]
CARD_IDX = {c: i for i, c in enumerate(CARD)}
VUL_NAMES = ['None', 'NS', 'EW', 'Both']
VUL = {'None': Vul['NONE'], 'NS': Vul['NS'], 'EW': Vul['EW'], 'Both': Vul['BOTH']}
VUL_NAME = {v: k for k, v in VUL.items()}
PAIR = [Pair['NS'], Pair['EW']]


HOW = ['constructor', 'hand attributes rebound after construction', 'hand sets changed in place after construction', 'copy.deepcopy',
       'pickle round trip', 'copy.copy with hand attributes rebound on the copy']


def hands_from_owner(owner, how=0):
    """owner: list of 52 seat indices (or None for absent) -> Hands.  how: the way the object came to hold this deal (HOW) -
    a deal is a deal however the caller arrived at it: the four hands are plain public attributes holding plain sets."""
    import copy
    import pickle
    hs = [set(), set(), set(), set()]
    for c, s in enumerate(owner):
        if s is not None:
            hs[s].add(CARD[c])
    if how in (0, 3, 4):
        H = Hands(north_hand=hs[0], east_hand=hs[1], south_hand=hs[2], west_hand=hs[3])
        if how == 4:
            try:
                return pickle.loads(pickle.dumps(H))
            except Exception:  # noqa  (nothing promises that a deal can be pickled: fall back to the object itself)
                return H
        return H if how == 0 else copy.deepcopy(H)
    other = [set(hs[2]), set(hs[3]), set(hs[0]), set(hs[1])]          # the deal turned half round: another deal
    H = Hands(north_hand=other[0], east_hand=other[1], south_hand=other[2], west_hand=other[3])
    try:
        if how == 2:
            for held, want in zip((H.north, H.east, H.south, H.west), hs):
                held.clear()
                held.update(want)
            return H
        G = H if how == 1 else copy.copy(H)
        G.north, G.east, G.south, G.west = hs
    except Exception:  # noqa  (a Hands class that does not let its hands be replaced this way: use the constructor)
        return Hands(north_hand=hs[0], east_hand=hs[1], south_hand=hs[2], west_hand=hs[3])
    if how == 5 and [H.north, H.east, H.south, H.west] != other:
        raise AssertionError('copy.copy of a deal followed by rebinding the hands of the copy changed the original')
    return G


def use_deal(hands, k=0):
    """What a table does with a deal it was given: cards leave the hands as they are played (PlayingPhaseWithHands removes
    them in place).  Whatever was read or decoded is the caller's to use; a later read must not see it."""
    for s in range(4):
        h = hands[SEAT[s]]
        try:
            for c in sorted(h, key=lambda c: CARD_IDX[c])[: 1 + (k + s) % 3]:
                h.discard(c)
        except Exception:  # noqa  (hands that cannot be changed in place cannot be disturbed either)
            return


def hands_to_ints(hands):
    return [sorted(CARD_IDX[c] for c in hands[SEAT[s]]) for s in range(4)]


def contract_of(bid, dbl, vul_name, declarer):
    return Contract(final_bid=BID[bid], x=dbl >= 1, xx=dbl == 2, vul=VUL[vul_name],
                    declarer=SEAT[declarer])


def dbl_status(contract):
    return 2 if contract.xx else (1 if contract.x else 0)


def stir(k=0):
    """Exercise unrelated parts of the library in this process (random deals, an auction, some plays, scoring, the text
    formats) - answers of the code under test must not depend on what else the process did before.  Whatever happens in
    here is not judged (each part belongs to another property); exceptions are swallowed."""
    import io
    import random
    try:
        random.seed(k)
        for _ in range(2):
            Hands.generate_random_hands()
        from bridge_env import BiddingPhase
        from bridge_env.playing_phase import PlayingPhaseWithHands
        from bridge_env.score import calc_score, point_difference_to_imps
        bp = BiddingPhase(dealer=SEAT[k % 4], vul=VUL[VUL_NAMES[k % 4]])
        for c in (BID[(k * 3) % 30], BID[36], BID[37], BID[35], BID[35], BID[35]):
            bp.take_bid(c)
        contract = bp.contract()
        hands = Hands.generate_random_hands()
        env = PlayingPhaseWithHands(contract, hands)
        for _ in range(6):
            p = env.active_player
            card = sorted(env.current_available_cards_in_hand(p))[0]
            env.play_card_by_player(card, p)
        calc_score(contract, 7 + k % 7)
        point_difference_to_imps(430 - 100 * (k % 9))
        text = Hands.generate_random_hands().to_pbn(SEAT[k % 4])
        Hands.convert_pbn(text).to_binary()
        Contract.str_to_contract(str(contract), contract.vul, contract.declarer)
        from bridge_env.data_handler.pbn_handler.parser import PbnParser
        PbnParser().parse_board_settings(io.StringIO(f'[Board "{k}"]\n[Dealer "N"]\n[Vulnerable "None"]\n[Deal "{text}"]\n\n'))
    except Exception:  # noqa
        pass
