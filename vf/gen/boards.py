"""Hypothesis strategies for board results / board settings (plain values; converted at the boundary)."""
from hypothesis import strategies as st
from vf.model import auction as A
from vf.props import _auction as AU
from vf.props import _play as PL

VULS = ['None', 'NS', 'EW', 'Both']
SCORINGS = ['MP', 'MATCH_POINTS', 'IMP', 'CAVENDISH', 'CHICAGO', 'RUBBER', 'BAM', 'INSTANT']
# the alphabet the properties C17/C18 quantify over for ids and names
PBN_ALPHABET = 'abcdefghijklmnopqrstuvwxyzABCDEFGHIJKLMNOPQRSTUVWXYZ0123456789 .,-_/()\'+#:'

DDA = st.lists(st.lists(st.integers(0, 13), min_size=5, max_size=5), min_size=4, max_size=4)


def legal_auction():
    return st.builds(lambda d, p, s: AU.build_auction(d, p, s), st.integers(0, 3), AU.PARAMS, AU.STEPS)


ANY_CALLS = st.lists(st.integers(0, 37), min_size=0, max_size=30)

# contract: None (passed out, final_bid None), 'Pass' (passed out, final_bid Pass), or (bid, dbl, declarer)
CONTRACT = st.one_of(st.just(None), st.just('Pass'),
                     st.tuples(st.integers(0, 34), st.integers(0, 2), st.integers(0, 3)),
                     st.tuples(st.integers(0, 34), st.integers(0, 2), st.integers(0, 3)),
                     st.tuples(st.integers(0, 34), st.integers(0, 2), st.integers(0, 3)))

TRICK = st.tuples(st.integers(0, 3), st.lists(st.integers(0, 51), min_size=4, max_size=4))
PLAY_HISTORY = st.one_of(st.none(), st.lists(TRICK, min_size=0, max_size=13), st.lists(TRICK, min_size=13, max_size=13))


def result(names):
    """names: strategy for ids and player names."""
    return st.fixed_dictionaries({
        'board_id': names, 'players': st.lists(names, min_size=4, max_size=4),
        'dealer': st.integers(0, 3), 'vul': st.sampled_from(VULS), 'owner': PL.DEAL,
        'scoring': st.sampled_from(SCORINGS),
        'auction': st.one_of(legal_auction(), ANY_CALLS),
        'contract': CONTRACT, 'play': PLAY_HISTORY,
        'tricks': st.one_of(st.none(), st.integers(0, 13)),
        'scores': st.tuples(st.integers(-7600, 7600), st.integers(-7600, 7600)),
        'dda': st.one_of(st.none(), DDA),
    })


def setting(names):
    return st.fixed_dictionaries({
        'board_id': names, 'dealer': st.integers(0, 3), 'vul': st.sampled_from(VULS), 'owner': PL.DEAL,
        'dda': st.one_of(st.none(), DDA),
    })
