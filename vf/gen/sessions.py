"""Hypothesis strategies for simulated sessions: boards with scripted legal auctions and plays,
client formatting, arrival order and thread schedules (all drawn, all JSON-able)."""
from hypothesis import strategies as st
from vf.gen.perm import permutations
from vf.model import auction as A, play as P
from vf.props import _auction as AU
from vf.props import _play as PL
from vf.gen import boards as GB

ID_TEXT = st.one_of(st.integers(1, 99).map(str), st.text(max_size=8), st.text(alphabet=GB.PBN_ALPHABET, min_size=1, max_size=10))
TEAM = st.one_of(st.sampled_from(['NS-team', 'EW-team', 'a', 'b']), st.text(alphabet=GB.PBN_ALPHABET, min_size=1, max_size=10),
                 st.text(alphabet=st.characters(blacklist_characters='"\r\n', blacklist_categories=('Cs',)), min_size=1, max_size=8))


@st.composite
def board(draw, play_prob=3):
    dealer = draw(st.integers(0, 3))
    owner = draw(PL.DEAL)
    kind = draw(st.integers(0, play_prob))
    if kind == 0:
        calls = [A.PASS] * 4
    else:
        params = draw(AU.PARAMS)
        steps = draw(st.lists(st.tuples(st.integers(0, 99), st.integers(0, 34)), min_size=4, max_size=30))
        calls = AU.build_auction(dealer, params, steps, max_len=40)
    res = A.result(dealer, calls)
    cards = []
    if res is not None:
        plays = draw(PL.PLAYS)
        cards, _ = PL.script_cards(owner, res[2], res[0] % 5, plays)
    b = {'id': draw(ID_TEXT), 'dealer': dealer, 'vul': draw(st.sampled_from(GB.VULS)), 'owner': owner,
         'dda': draw(st.one_of(st.none(), st.none(), GB.DDA)), 'calls': calls, 'cards': cards}
    if kind == 0 and draw(st.integers(0, 2)) == 0:
        # a board whose setting leaves the deal to the table manager (BoardSetting(hands=None, dealer=..., vul=..., id=...)):
        # dealer, vulnerability and id are still the configured ones; such boards are passed out here (the scripted clients
        # cannot know their cards in advance)
        b['server_deals'] = True
    return b


ALERT = st.sampled_from([' Alert.', ' alert.', ' ALERT. ', '  Alert.  '])


@st.composite
def fmt(draw):
    return {'case': draw(st.sampled_from(['asis', 'asis', 'lower', 'upper', 'mask'])),
            'mask': draw(st.integers(0, 2 ** 60 - 1)),
            'blanks': draw(st.sampled_from([0, 0, 1, 2])),
            'suit_first': draw(st.lists(st.booleans(), min_size=4, max_size=4)),
            'alerts': {f'{b}:{i}': s for (b, i), s in draw(st.dictionaries(st.tuples(st.integers(0, 5), st.integers(0, 12)), ALERT, max_size=4)).items()}}


STALL = st.fixed_dictionaries({'victim': st.sampled_from(['main', 'seat-thread-0', 'seat-thread-1', 'seat-thread-2', 'seat-thread-3',
                                                          'client-N', 'client-E', 'client-S', 'client-W', 'seat-thread', 'client']),
                               'at': st.one_of(st.integers(0, 60), st.integers(0, 600)),
                               'length': st.one_of(st.integers(1, 80), st.integers(50, 3000))})


def schedule(allow_sequential=True):
    kinds = [
        st.fixed_dictionaries({'kind': st.just('preempt'), 'ks': st.lists(st.integers(0, 8), min_size=0, max_size=400)}),
        st.fixed_dictionaries({'kind': st.just('sparse'), 'at': st.dictionaries(st.integers(0, 3000).map(str), st.integers(1, 8), max_size=8)}),
        st.fixed_dictionaries({'kind': st.just('pct'), 'prios': st.lists(st.integers(0, 12), min_size=9, max_size=9),
                               'change': st.lists(st.integers(0, 4000), max_size=4)}),
        st.fixed_dictionaries({'kind': st.just('uniform'), 'seed': st.integers(0, 2 ** 32)}),
        st.fixed_dictionaries({'kind': st.just('uniform'), 'seed': st.integers(0, 2 ** 32)}),
    ]
    if allow_sequential:
        kinds.append(st.fixed_dictionaries({'kind': st.just('sequential')}))
    base = st.one_of(*kinds)
    victims = ['main', 'seat-thread-0', 'seat-thread-1', 'seat-thread-2', 'seat-thread-3', 'client-N', 'client-E', 'client-S', 'client-W']
    starve = st.one_of(st.none(), st.none(), st.none(), st.none(), st.sampled_from(victims))      # one task delayed without limit
    return st.tuples(base, st.lists(STALL, max_size=3), starve).map(
        lambda t: dict(t[0], **({'stalls': t[1]} if t[1] else {}), **({'starve': t[2]} if t[2] else {})))


@st.composite
def scenario(draw, min_boards=1, max_boards=3, play_prob=3):
    boards = draw(st.lists(board(play_prob), min_size=min_boards, max_size=max_boards))
    teams = [draw(TEAM), draw(TEAM)]
    arrival = draw(permutations([0, 1, 2, 3]))
    intruders = []
    for _ in range(draw(st.sampled_from([0, 0, 0, 0, 1, 2]))):
        kind = draw(st.sampled_from(['wrong version', 'seat taken', 'team mismatch']))
        early = arrival[draw(st.integers(0, 2))]                   # a seat whose conforming client is not the last to arrive
        if kind == 'wrong version':
            intruders.append({'kind': kind, 'seat': draw(st.integers(0, 3)), 'team': teams[0], 'version': draw(st.integers(0, 99).filter(lambda v: v != 18)), 'after': None})
        elif kind == 'seat taken':
            intruders.append({'kind': kind, 'seat': early, 'team': teams[early % 2], 'version': 18, 'after': early})
        else:
            intruders.append({'kind': kind, 'seat': (early + 2) % 4, 'team': teams[early % 2] + '?', 'version': 18, 'after': early})
    return {'boards': boards, 'teams': teams, 'arrival': arrival, 'intruders': intruders,
            'linger': draw(st.one_of(st.just([]), st.just([]), st.lists(st.integers(0, 3), max_size=4, unique=True))),
            'fmt': draw(fmt()), 'split': draw(st.one_of(st.none(), st.none(), st.lists(st.integers(1, 7), min_size=1, max_size=5)))}
