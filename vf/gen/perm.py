"""Permutations by construction (Fisher-Yates over drawn integers).  `st.permutations` cannot be used: under
`fuzz_one_input` (the atheris tier) this Hypothesis version never completes a draw from it, so a test using it is never
executed by the fuzzer."""
from hypothesis import strategies as st


def _fy(items):
    def build(ks):
        p = list(items)
        for i in range(len(p) - 1, 0, -1):
            j = ks[i] % (i + 1)
            p[i], p[j] = p[j], p[i]
        return p
    return build


def permutations(items):
    items = list(items)
    n = len(items)
    return st.lists(st.integers(0, max(n - 1, 0)), min_size=n, max_size=n).map(_fy(items))
