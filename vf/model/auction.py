"""Independent model of the auction (Laws 17-22, 38), on plain integers.

Calls: 0..34 = bids 1C,1D,1H,1S,1NT,2C,...,7NT; 35 = Pass; 36 = X; 37 = XX.
Seats: 0..3 = N,E,S,W clockwise.  No code shared with bridge_env.
"""
PASS, X, XX = 35, 36, 37
SEATS = 'NESW'
STRAINS = ['C', 'D', 'H', 'S', 'NT']


def call_name(c):
    if c == PASS:
        return 'Pass'
    if c == X:
        return 'X'
    if c == XX:
        return 'XX'
    return f'{c // 5 + 1}{STRAINS[c % 5]}'


def enum_name(c):
    """Name of the bridge_env.Bid member (boundary only)."""
    if c >= 35:
        return call_name(c)
    return f'{STRAINS[c % 5]}{c // 5 + 1}'


def seat_at(dealer, n):
    return (dealer + n) % 4


def finished(calls):
    n = len(calls)
    if n >= 4 and all(c == PASS for c in calls[:4]):
        return True
    if n >= 4 and any(c != PASS for c in calls) and calls[-3:] == [PASS] * 3:
        return True
    return False


def analyse(dealer, calls):
    """Returns dict: last_bid, last_bidder(seat), doubled(0/1/2)."""
    last_bid, last_bidder, dbl = None, None, 0
    for i, c in enumerate(calls):
        s = seat_at(dealer, i)
        if c < 35:
            last_bid, last_bidder, dbl = c, s, 0
        elif c == X:
            dbl = 1
        elif c == XX:
            dbl = 2
    return last_bid, last_bidder, dbl


def legal_calls(dealer, calls):
    """Set of legal calls for the seat on turn; empty once the auction is over."""
    calls = list(calls)
    if finished(calls):
        return set()
    turn = seat_at(dealer, len(calls))
    last_bid, last_bidder, dbl = analyse(dealer, calls)
    legal = {PASS}
    lo = 0 if last_bid is None else last_bid + 1
    legal.update(range(lo, 35))
    if last_bid is not None:
        opp = (turn - last_bidder) % 2 == 1
        if dbl == 0 and opp:
            legal.add(X)
        if dbl == 1 and not opp:
            legal.add(XX)
    return legal


def is_legal_sequence(dealer, calls):
    for i, c in enumerate(calls):
        if c not in legal_calls(dealer, calls[:i]):
            return False
    return True


def result(dealer, calls):
    """For a finished auction: None if passed out, else
    (bid, doubled 0/1/2, declarer seat)."""
    assert finished(list(calls))
    last_bid, last_bidder, dbl = analyse(dealer, calls)
    if last_bid is None:
        return None
    strain = last_bid % 5
    for i, c in enumerate(calls):
        s = seat_at(dealer, i)
        if c < 35 and c % 5 == strain and (s - last_bidder) % 2 == 0:
            return last_bid, dbl, s
    raise AssertionError('unreachable')


def longest_auction(dealer=0):
    """The 319-call auction: P P P, then for each of 35 bids: bid P P X P P XX P P, final P."""
    calls = [PASS, PASS, PASS]
    for b in range(35):
        calls += [b, PASS, PASS, X, PASS, PASS, XX, PASS, PASS]
    calls.append(PASS)
    assert len(calls) == 319 and is_legal_sequence(dealer, calls) and finished(calls)
    return calls
