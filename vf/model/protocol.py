"""Blue Chip Bridge protocol v18 as the *other end* builds and reads it.
Tolerant readers (any letter case, runs of blanks); independent of bridge_env's builders/parsers."""
import re

FORMAL = ['North', 'East', 'South', 'West']
STRAIN_TXT = ['C', 'D', 'H', 'S', 'NT']
RANKS = '23456789TJQKA'
SUITS = 'CDHS'
VUL_TXT = {'None': 'Neither', 'NS': 'N/S', 'EW': 'E/W', 'Both': 'Both'}


def _ws(s):
    return re.sub(r'\s+', ' ', s.strip())


def fmt_case(s, mode, mask=0):
    if mode == 'lower':
        return s.lower()
    if mode == 'upper':
        return s.upper()
    if mode == 'mask':
        return ''.join(ch.upper() if (mask >> (i % 60)) & 1 else ch.lower() for i, ch in enumerate(s))
    return s


def fmt_blanks(s, extra):
    """Replace single blanks by runs (extra = number of additional blanks)."""
    return s.replace(' ', ' ' * (1 + extra)) if extra else s


# ---- client -> server ----------------------------------------------------------------

def connecting(team, seat, version=18):
    return f'Connecting "{team}" as {FORMAL[seat]} using protocol version {version}'


def call_text(seat, call):
    if call == 35:
        return f'{FORMAL[seat]} passes'
    if call == 36:
        return f'{FORMAL[seat]} doubles'
    if call == 37:
        return f'{FORMAL[seat]} redoubles'
    return f'{FORMAL[seat]} bids {call // 5 + 1}{STRAIN_TXT[call % 5]}'


def card_text(seat, card, suit_first=False):
    r, s = RANKS[card % 13], SUITS[card // 13]
    return f'{FORMAL[seat]} plays {s + r if suit_first else r + s}'


# ---- server -> client (tolerant readers) -------------------------------------------------

def read_seated(line):
    # the team name is free text: it is delimited by exactly one blank on each side (or by ("...")), never trimmed
    m = re.fullmatch(r'(north|east|south|west) (?:\("(.*)"\)|(.*)) seated', line, re.I | re.S)
    if not m:
        return None
    return FORMAL.index(m.group(1).capitalize()), m.group(2) if m.group(2) is not None else m.group(3)


def read_teams(line):
    m = re.fullmatch(r'teams *: *n/s *: *"(.*)" *\.? *e/w *: *"(.*)" *\.?', line, re.I | re.S)
    if not m:
        return None
    return m.group(1), m.group(2)


def read_board(line):
    m = re.fullmatch(r'board number\s+(\d+)\s*\.\s*dealer\s+(north|east|south|west)\s*\.\s*(neither|n/s|e/w|both)\s+vulnerable\s*\.?',
                     _ws(line), re.I)
    if not m:
        return None
    vul = {'neither': 'None', 'n/s': 'NS', 'e/w': 'EW', 'both': 'Both'}[m.group(3).lower()]
    return int(m.group(1)), FORMAL.index(m.group(2).capitalize()), vul


def read_hand_body(body):
    m = re.fullmatch(r's\s+(.*?)\s*\.\s*h\s+(.*?)\s*\.\s*d\s+(.*?)\s*\.\s*c\s+(.*?)\s*\.?', _ws(body), re.I)
    if not m:
        return None
    cards = set()
    for txt, suit in zip(m.groups(), (3, 2, 1, 0)):
        for tok in txt.split():
            if tok == '-':
                continue
            tok = tok.upper()
            if tok == '10':
                tok = 'T'
            if tok not in RANKS:
                return None
            cards.add(suit * 13 + RANKS.index(tok))
    return cards


def read_cards(line):
    """'<Seat>'s cards : S ... .' or 'Dummy's cards : ...' -> (who, set)"""
    m = re.fullmatch(r"(north|east|south|west|dummy)'s cards\s*:\s*(.*)", line.strip(), re.I | re.S)
    if not m:
        return None
    cards = read_hand_body(m.group(2))
    if cards is None:
        return None
    who = m.group(1).capitalize()
    return ('Dummy' if who == 'Dummy' else FORMAL.index(who)), cards


def read_call(line):
    s = _ws(line)
    m = re.fullmatch(r'(north|east|south|west) (passes|doubles|redoubles)', s, re.I)
    if m:
        return FORMAL.index(m.group(1).capitalize()), {'passes': 35, 'doubles': 36, 'redoubles': 37}[m.group(2).lower()]
    m = re.fullmatch(r'(north|east|south|west) bids ([1-7])\s?(c|d|h|s|nt)', s, re.I)
    if m:
        return FORMAL.index(m.group(1).capitalize()), (int(m.group(2)) - 1) * 5 + STRAIN_TXT.index(m.group(3).upper())
    return None


def read_card(line):
    m = re.fullmatch(r'(north|east|south|west) plays ([2-9tjqka]|10)\s?([cdhs])', _ws(line), re.I)
    if m:
        r = m.group(2).upper()
        return FORMAL.index(m.group(1).capitalize()), SUITS.index(m.group(3).upper()) * 13 + RANKS.index('T' if r == '10' else r)
    m = re.fullmatch(r'(north|east|south|west) plays ([cdhs])\s?([2-9tjqka]|10)', _ws(line), re.I)
    if m:
        r = m.group(3).upper()
        return FORMAL.index(m.group(1).capitalize()), SUITS.index(m.group(2).upper()) * 13 + RANKS.index('T' if r == '10' else r)
    return None


def read_lead(line):
    m = re.fullmatch(r'(north|east|south|west|dummy) to lead', _ws(line), re.I)
    if not m:
        return None
    who = m.group(1).capitalize()
    return 'Dummy' if who == 'Dummy' else FORMAL.index(who)


def is_start_of_board(line):
    return _ws(line).lower() == 'start of board'


def is_end_of_session(line):
    return _ws(line).lower() == 'end of session'


def classify(line):
    """('kind', value) for any server->client line; kind 'other' if nothing matches."""
    if is_start_of_board(line):
        return 'start', None
    if is_end_of_session(line):
        return 'end', None
    for kind, fn in (('seated', read_seated), ('teams', read_teams), ('board', read_board), ('cards', read_cards),
                     ('call', read_call), ('card', read_card), ('lead', read_lead)):
        v = fn(line)
        if v is not None:
            return kind, v
    if 'error' in line.lower() or 'illegal' in line.lower():
        return 'error', line
    return 'other', line
