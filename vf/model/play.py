"""Independent model of the play (Laws 41, 44), on plain integers.

Cards: 0..51 = C2..CA, D2..DA, H2..HA, S2..SA (suit = c // 13, rank = c % 13).
Strain: 0..3 = C,D,H,S trump; 4 = no-trump.  Seats 0..3 = N,E,S,W clockwise.
"""
SUITS = 'CDHS'
RANKS = '23456789TJQKA'


def card_name(c):
    return SUITS[c // 13] + RANKS[c % 13]


def trick_winner_pos(cards, strain):
    """Index 0..3 within the trick of the winning card."""
    led = cards[0] // 13
    best = 0
    for i in range(1, 4):
        c, b = cards[i], cards[best]
        cs, bs = c // 13, b // 13
        if cs == bs:
            if c % 13 > b % 13:
                best = i
        elif strain != 4 and cs == strain:
            best = i  # first trump on a non-trump best card
        # else: discard, cannot win
    assert cards[best] // 13 in (led, strain)
    return best


def follow_set(hand, led_card):
    """Cards of `hand` playable when led_card (or None when leading) was led."""
    hand = set(hand)
    if led_card is None:
        return hand
    same = {c for c in hand if c // 13 == led_card // 13}
    return same if same else hand


class Play:
    """Reference state of a board in play."""

    def __init__(self, declarer, strain):
        self.declarer = declarer
        self.strain = strain
        self.dummy = (declarer + 2) % 4
        self.leader = (declarer + 1) % 4
        self.turn = self.leader
        self.trick = []
        self.trick_num = 1
        self.history = []          # [(leader, [c0..c3])]
        self.tricks = [0, 0]       # NS, EW
        self.played = []

    def done(self):
        return self.trick_num > 13

    def play(self, card):
        self.trick.append(card)
        self.played.append(card)
        if len(self.trick) == 4:
            w = trick_winner_pos(self.trick, self.strain)
            self.history.append((self.leader, list(self.trick)))
            self.leader = (self.leader + w) % 4
            self.tricks[self.leader % 2] += 1
            self.turn = self.leader
            self.trick = []
            self.trick_num += 1
        else:
            self.turn = (self.turn + 1) % 4
