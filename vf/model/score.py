"""Duplicate bridge score by formula (Law 77), no tables from bridge_env.

score(level 1..7, strain 0..4 (C,D,H,S,NT), dbl 0/1/2, vulnerable bool, tricks 0..13)
from declarer's side.
"""


def side_vulnerable(board_vul, declarer):
    """board_vul in {'None','NS','EW','Both'}; declarer seat 0..3 (N,E,S,W)."""
    if board_vul == 'None':
        return False
    if board_vul == 'Both':
        return True
    return (board_vul == 'NS') == (declarer % 2 == 0)


def score(level, strain, dbl, vul, tricks):
    need = level + 6
    if tricks < need:
        down = need - tricks
        if dbl == 0:
            return -(100 if vul else 50) * down
        total = 0
        for k in range(1, down + 1):
            if vul:
                total += 200 if k == 1 else 300
            else:
                total += 100 if k == 1 else (200 if k <= 3 else 300)
        return -total * (2 if dbl == 2 else 1)
    per = 20 if strain <= 1 else 30
    below = per * level + (10 if strain == 4 else 0)
    below *= (1, 2, 4)[dbl]
    s = below
    s += (500 if vul else 300) if below >= 100 else 50
    if level == 6:
        s += 750 if vul else 500
    if level == 7:
        s += 1500 if vul else 1000
    s += (0, 50, 100)[dbl]
    over = tricks - need
    if dbl == 0:
        s += per * over
    else:
        s += over * (200 if vul else 100) * (1 if dbl == 1 else 2)
    return s
