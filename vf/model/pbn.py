"""Independent renderer of PBN deals and import files (PBN 2.1), on plain values.
Cards 0..51 = C2..CA, D2..DA, H2..HA, S2..SA; seats 0..3 = N,E,S,W."""
SEATS = 'NESW'
RANKS = '23456789TJQKA'


def hand_text(cards):
    """13 cards -> 'S.H.D.C' ranks high to low, void = empty field; empty hand -> '-'."""
    cards = list(cards)
    if not cards:
        return '-'
    fields = []
    for suit in (3, 2, 1, 0):  # S H D C
        rs = sorted((c % 13 for c in cards if c // 13 == suit), reverse=True)
        fields.append(''.join(RANKS[r] for r in rs))
    return '.'.join(fields)


def deal_text(hands, first):
    """hands: 4 lists of card ints (N,E,S,W); first: seat index the text starts with."""
    return SEATS[first] + ':' + ' '.join(hand_text(hands[(first + i) % 4]) for i in range(4))


MANDATORY_EXPORT_TAGS = ['Event', 'Site', 'Date', 'Board', 'West', 'North', 'East', 'South', 'Dealer',
                         'Vulnerable', 'Deal', 'Scoring', 'Declarer', 'Contract', 'Result']


VUL_SPELLINGS = {'None': ['None', 'Love', '-'], 'NS': ['NS'], 'EW': ['EW'], 'Both': ['Both', 'All']}


def render_import(boards, layout):
    """Render boards as a PBN import file.

    board: {'id': str, 'dealer': 0..3, 'vul_text': str, 'hands': 4 lists of ints, 'first': 0..3,
            'order': permutation of the 4 core tags + extras (list of indices), 'extra': [(name, value)],
            'table': None | (name, header, [row, ...])}
    layout: {'header': [str] (without '%'), 'header_blank': bool, 'nl': '\n'|'\r\n', 'lead': [blank lines],
             'sep': [[blank lines] per gap], 'trail': [blank lines], 'final_nl': bool}
    blank line = '' or a run of spaces/tabs.  Returns the text."""
    nl = layout['nl']
    lines = []
    for h in layout['header']:
        lines.append('%' + h)
    if layout['header'] and layout['header_blank']:
        lines.append('')
    lines.extend(layout['lead'])
    for i, b in enumerate(boards):
        if i > 0:
            lines.extend(layout['sep'][(i - 1) % len(layout['sep'])])
        core = [('Board', b['id']), ('Dealer', SEATS[b['dealer']]), ('Vulnerable', b['vul_text']),
                ('Deal', deal_text(b['hands'], b['first']))]
        tags = core + list(b['extra'])
        order = [k for k in b['order'] if k < len(tags)] + [k for k in range(len(tags)) if k not in b['order']]
        for k in order:
            name, value = tags[k]
            lines.append(f'[{name} "{value}"]')
        if b['table'] is not None:
            name, header, rows = b['table']
            lines.append(f'[{name} "{header}"]')
            lines.extend(rows)
    lines.extend(layout['trail'])
    text = nl.join(lines)
    if lines and layout['final_nl']:
        text += nl
    return text
