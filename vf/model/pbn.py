"""Independent renderer of PBN deals and import files (PBN 2.1), on plain values.
Cards 0..51 = C2..CA, D2..DA, H2..HA, S2..SA; seats 0..3 = N,E,S,W."""
SEATS = 'NESW'
RANKS = '23456789TJQKA'


def hand_text(cards):
    """13 cards -> 'S.H.D.C' ranks high to low, void = empty field; empty hand -> '-'."""
    cards = list(cards)
    if not cards:
        return '-'
    fields = []
    for suit in (3, 2, 1, 0):  # S H D C
        rs = sorted((c % 13 for c in cards if c // 13 == suit), reverse=True)
        fields.append(''.join(RANKS[r] for r in rs))
    return '.'.join(fields)


def deal_text(hands, first):
    """hands: 4 lists of card ints (N,E,S,W); first: seat index the text starts with."""
    return SEATS[first] + ':' + ' '.join(hand_text(hands[(first + i) % 4]) for i in range(4))


MANDATORY_EXPORT_TAGS = ['Event', 'Site', 'Date', 'Board', 'West', 'North', 'East', 'South', 'Dealer',
                         'Vulnerable', 'Deal', 'Scoring', 'Declarer', 'Contract', 'Result']
