"""C12 - JSON game logs are schema-valid and read back exactly as written."""
import io
import json
import os
from hypothesis import strategies as st
from vf.common.core import Violation, check, guard, run_hypothesis, REPO, VERIF_ROOT
from vf.common import be
from vf.model import auction as A, play as P
from vf.gen import boards as GB
from vf.props import _play as PL

ID = 'C12'
LEVEL = 'exploration'
RULE = ('documents of 0-8 board results from Hypothesis: ids and the four player names st.text() (any Unicode), dealer, '
        'vulnerability (inside the contract), full deal, every Scoring member, auction (legal complete auctions AND '
        'arbitrary call lists), contract (35 bids x 3 doubling states x declarer, both passed-out forms), play history '
        'None / 0-13 recorded tricks, trick count None / 0-13, scores, optional full double-dummy table; written through '
        'JsonLogWriter via open()/close() or via "with" (drawn), on a StringIO or on a real text file in a drawn encoding (utf-8, ascii, latin-1, cp1252, utf-16 - the table manager opens its log in the locale\'s encoding) that is read back in the same encoding; in a third of the documents one or two writes that FAIL (a result whose double-dummy table holds a set) are attempted in between, and in a quarter of the `with` cases the block is left by an exception (KeyboardInterrupt, SystemExit, GeneratorExit, ValueError) after some results - the document must then be complete with exactly those. Oracle: (1) json.loads succeeds and has '
        'one record per result; (2) jsonschema Draft7Validator with the two shipped schema files reports no error; (3) '
        'JsonParser.parse_board_logs returns records equal field by field to what was written, as value objects (Player '
        'keys, Vul, Hands, Bid list, Contract level/strain/doubling/vul/declarer, TrickHistory.leader a Player, Pair '
        'keys of scores, Suit keys of dda); (4) parse_board_settings on the same text yields the same boards in order. '
        'Non-trivial = document with >=2 results among which a passed-out one and a played one with >=1 recorded trick '
        'and a dda table; distinct by document text hash.')
ASSUMPTIONS = ['jsonschema 4.26 Draft7Validator + referencing.Registry resolve the relative $ref between the two shipped schemas',
               'a passed-out contract is written with declarer None (as BiddingPhase produces it)']

_VALIDATOR = None


def validator():
    global _VALIDATOR
    if _VALIDATOR is None:
        import jsonschema
        from referencing import Registry, Resource
        from referencing.jsonschema import DRAFT7
        d = os.path.join(REPO, 'bridge_env', 'data_handler', 'json_handler')
        with open(os.path.join(d, 'log_format.schema.json')) as f:
            log = json.load(f)
        with open(os.path.join(d, 'board_setting_format.schema.json')) as f:
            bs = json.load(f)
        reg = Registry().with_resources([
            ('board_setting_format.schema.json', Resource.from_contents(bs, default_specification=DRAFT7)),
            ('log_format.schema.json', Resource.from_contents(log, default_specification=DRAFT7)),
        ])
        _VALIDATOR = (jsonschema.Draft7Validator(log, registry=reg), jsonschema.Draft7Validator(bs, registry=reg))
    return _VALIDATOR


def plan(tier):
    n, per = (16, 500) if tier == 'quick' else (16, 5000)
    sh = [{'kind': 'documents', 'n': per} for _ in range(n)]
    if tier == 'thorough':       # coverage-guided campaigns on the same test (atheris), own seed and corpus each
        sh += [{'kind': 'fuzz', 'target': 'documents', 'runs': 6000} for _ in range(6)]
    return sh


def mk_contract(r):
    from bridge_env import Contract, Bid
    c = r['contract']
    if c is None:
        return Contract(final_bid=None, vul=be.VUL[r['vul']])
    if c == 'Pass':
        return Contract(final_bid=Bid['Pass'], vul=be.VUL[r['vul']])
    bid, dbl, decl = c
    return be.contract_of(bid, dbl, r['vul'], decl)


def mk_dda(d):
    if d is None:
        return None
    return {be.SEAT[s]: {be.SUIT[k]: d[s][k] for k in range(5)} for s in range(4)}


def mk_history(r, contract):
    from bridge_env.playing_phase import PlayingHistory, TrickHistory
    if r['play'] is None:
        return None
    h = PlayingHistory(contract)
    watched = (len(r['auction']) + len(r['play'])) % 2 == 0
    for i, (leader, cards) in enumerate(r['play']):
        h.record(i + 1, TrickHistory(be.SEAT[leader], tuple(be.CARD[c] for c in cards)))
        if watched and i % 3 == 0:
            # the history object of a real board is looked at while the play goes on (a display, a progress log): what is
            # written later is the history as it stands when it is written
            h.history  # noqa
    return h


def describe(r):
    c = r['contract']
    return {'board_id': r['board_id'], 'players': r['players'], 'dealer': A.SEATS[r['dealer']], 'vul': r['vul'],
            'scoring': r['scoring'], 'auction': [A.call_name(x) for x in r['auction']],
            'contract': c if not isinstance(c, (tuple, list)) else [A.call_name(c[0]), c[1], A.SEATS[c[2]]],
            'play': None if r['play'] is None else [[A.SEATS[l], PL.fmt_cards(cs)] for l, cs in r['play']],
            'tricks': r['tricks'], 'scores': list(r['scores']), 'dda': r['dda'],
            'owner': ''.join('NESW'[o] for o in r['owner'])}


def undescribe(d):
    names = [A.call_name(i) for i in range(38)]
    cn = [P.card_name(i) for i in range(52)]
    c = d['contract']
    return {'board_id': d['board_id'], 'players': d['players'], 'dealer': A.SEATS.index(d['dealer']), 'vul': d['vul'],
            'scoring': d['scoring'], 'auction': [names.index(x) for x in d['auction']],
            'contract': c if not isinstance(c, list) else (names.index(c[0]), c[1], A.SEATS.index(c[2])),
            'play': None if d['play'] is None else [(A.SEATS.index(l), [cn.index(x) for x in cs]) for l, cs in d['play']],
            'tricks': d['tricks'], 'scores': tuple(d['scores']), 'dda': d['dda'],
            'owner': ['NESW'.index(ch) for ch in d['owner']]}


MEDIA = ['stringio', 'stringio', 'utf-8', 'ascii', 'latin-1', 'cp1252', 'utf-16']


class PoisonAccepted(Exception):
    """A result that cannot be written today (a set in its double-dummy table) was accepted: nothing can be predicted
    about such a document, the case is skipped (counted)."""


def write_document(results, use_with, medium='stringio', poison=(), abort=None):
    """medium: 'stringio' or the encoding of a real text file (the table manager writes its log with open(path, 'w'),
    i.e. in the locale's encoding, whatever that is)."""
    from bridge_env.data_handler.json_handler.writer import JsonLogWriter
    from bridge_env.data_handler.pbn_handler.writer import Scoring
    if medium != 'stringio':
        d = os.path.join(VERIF_ROOT, '.work', 'C12')
        os.makedirs(d, exist_ok=True)
        path = os.path.join(d, f'doc-{os.getpid()}.json')
        try:
            with open(path, 'w', encoding=medium) as buf:
                _emit_all(buf, results, use_with, poison, abort)
            with open(path, 'r', encoding=medium) as f:
                return f.read()
        finally:
            try:
                os.unlink(path)
            except OSError:
                pass
    buf = io.StringIO()
    _emit_all(buf, results, use_with, poison, abort)
    return buf.getvalue()


# names and ids: any Unicode text, and - half of the time - text built from fragments that mean something to JSON itself
# (separators next to brackets, quotes, backslashes, escapes, literals, line separators): inside a string they mean nothing
_FRAG = st.sampled_from([',]', ',}', ', ]', ',\n}', '[', ']', '{', '}', ':', ',', '"', '\\', '\\"', '\\u0041', '\\n', '/', '</', 'null', 'true', '-0', '1e5',
                         '\u2028', '\u2029', '\x7f', '\x00', '\t', '\n', ' ', "'", '\ud7ff', '\U0001f0a1', 'NaN', 'Infinity'])
JSONISH = st.one_of(st.text(max_size=12), st.lists(st.one_of(_FRAG, st.text(max_size=3)), max_size=5).map(''.join))


ABORTS = {'KeyboardInterrupt': KeyboardInterrupt, 'ValueError': ValueError, 'SystemExit': SystemExit, 'GeneratorExit': GeneratorExit}


class _Stop(Exception):
    pass


def _emit_all(buf, results, use_with, poison=(), abort=None):
    from bridge_env.data_handler.json_handler.writer import JsonLogWriter
    from bridge_env.data_handler.pbn_handler.writer import Scoring

    def emit(w):
        for i, r in enumerate(results):
            if abort is not None and i == abort[0]:
                # the block that writes the log is left by an exception after i results (a session abandoned, an operator
                # interrupt): the `with` statement must still complete the document with what was written
                raise ABORTS[abort[1]]()
            if i in poison:
                # a write that FAILS (its double-dummy table holds a set, which the writer cannot serialise) must leave
                # the document as it was: the results written before and after it still form one valid document
                contract = mk_contract(r)
                bad = {be.SEAT[s]: {be.SUIT[k]: {1, 2} for k in range(5)} for s in range(4)}
                try:
                    w.write(board_id=r['board_id'], west_player=r['players'][3], north_player=r['players'][0],
                            east_player=r['players'][1], south_player=r['players'][2], dealer=be.SEAT[r['dealer']],
                            deal=be.hands_from_owner(r['owner']), scoring=Scoring[r['scoring']],
                            bid_history=[be.BID[c] for c in r['auction']], contract=contract,
                            play_history=mk_history(r, contract), taken_trick_num=r['tricks'],
                            scores={be.PAIR[0]: r['scores'][0], be.PAIR[1]: r['scores'][1]}, dda=bad)
                except Exception:  # noqa
                    pass
                else:
                    raise PoisonAccepted()
            contract = mk_contract(r)
            if i % 2:
                # the documented positional order: board id, West, North, East, South, dealer, deal, scoring, calls,
                # contract, play, tricks, scores, double-dummy table
                w.write(r['board_id'], r['players'][3], r['players'][0], r['players'][1], r['players'][2], be.SEAT[r['dealer']],
                        be.hands_from_owner(r['owner']), Scoring[r['scoring']], [be.BID[c] for c in r['auction']], contract,
                        mk_history(r, contract), r['tricks'], {be.PAIR[0]: r['scores'][0], be.PAIR[1]: r['scores'][1]}, mk_dda(r['dda']))
                continue
            w.write(board_id=r['board_id'], west_player=r['players'][3], north_player=r['players'][0],
                    east_player=r['players'][1], south_player=r['players'][2], dealer=be.SEAT[r['dealer']],
                    deal=be.hands_from_owner(r['owner']), scoring=Scoring[r['scoring']],
                    bid_history=[be.BID[c] for c in r['auction']], contract=contract,
                    play_history=mk_history(r, contract), taken_trick_num=r['tricks'],
                    scores={be.PAIR[0]: r['scores'][0], be.PAIR[1]: r['scores'][1]}, dda=mk_dda(r['dda']))
    if use_with and abort is not None:
        try:
            with JsonLogWriter(buf) as w:
                emit(w)
        except BaseException as e:  # noqa
            if type(e) is not ABORTS[abort[1]]:
                raise
    elif use_with:
        with JsonLogWriter(buf) as w:
            emit(w)
    else:
        w = JsonLogWriter(buf)
        w.open()
        emit(w)
        w.close()


def check_document(results, use_with, stats=None, medium='stringio', poison=(), abort=None):
    from bridge_env.data_handler.json_handler.parser import JsonParser
    from bridge_env.data_handler.pbn_handler.writer import Scoring
    from bridge_env import Player, Pair, Suit, Bid, Card, Vul
    poison = sorted({p for p in poison if p < len(results)})
    if abort is not None and (not use_with or abort[0] >= len(results)):
        abort = None
    if abort is not None:
        abort = (abort[0], abort[1])
        results = results[:abort[0]] + results[abort[0]:]          # the results from abort[0] on are never written
    case = {'results': [describe(r) for r in results], 'use_with': use_with, 'medium': medium, 'failed_writes_before': poison,
            'with_block_left_by': None if abort is None else list(abort)}
    written = results if abort is None else results[:abort[0]]
    poison = [p for p in poison if abort is None or p < abort[0]]
    try:
        text = guard('JsonLogWriter raises', case, write_document, results, use_with, medium, poison, abort)
        results = written
    except Violation as v:
        if isinstance(v.__cause__, PoisonAccepted):
            if stats is not None:
                stats.excluded['unserialisable result was accepted by the writer'] += 1
            return
        raise
    if stats is not None and poison:
        stats.cls('documents with a failed write in between')
    if stats is not None and abort is not None:
        stats.cls(f'with-block left by {abort[1]} after some results')
    # (1) one valid JSON document
    try:
        doc = json.loads(text)
    except ValueError as e:
        raise Violation('written log is not one valid JSON document', case, {'error': str(e), 'text': text[:300]})
    check(isinstance(doc, dict) and isinstance(doc.get('logs'), list) and len(doc['logs']) == len(results),
          'written log does not hold one record per result', case, {'records': len(doc.get('logs', [])) if isinstance(doc, dict) else None})
    # (2) schema
    v_log, _ = validator()
    errs = sorted(v_log.iter_errors(doc), key=lambda e: list(e.absolute_path))
    if errs:
        e = errs[0]
        path = [p for p in e.absolute_path if not isinstance(p, int)]
        raise Violation('written log violates the published log schema at ' + '/'.join(map(str, path)), case,
                        {'message': e.message[:200], 'path': [str(p) for p in e.absolute_path]})
    # (3) read back as value objects
    logs = guard('parse_board_logs raises on a written log', case, JsonParser().parse_board_logs, io.StringIO(text))
    check(len(logs) == len(results), 'parse_board_logs returns a different number of records', case, {'got': len(logs)})
    for i, (r, lg) in enumerate(zip(results, logs)):
        rc = dict(case, record=i)

        def eq(cond, field, got=None):
            check(cond, f'field read back differently: {field}', rc, {'got': repr(got)[:300]})
        eq(lg.board_id == r['board_id'] and type(lg.board_id) is str, 'board_id', lg.board_id)
        eq(lg.players == {be.SEAT[s]: r['players'][s] for s in range(4)} and all(type(k) is Player for k in lg.players), 'players', lg.players)
        eq(lg.dealer is be.SEAT[r['dealer']], 'dealer', lg.dealer)
        eq(lg.vul is be.VUL[r['vul']], 'vulnerability', lg.vul)
        eq(be.hands_to_ints(lg.hands) == PL.hands_of(r['owner']), 'deal', None)
        eq(lg.bid_history == [be.BID[c] for c in r['auction']] and all(type(b) is Bid for b in lg.bid_history), 'bid_history', lg.bid_history)
        c = r['contract']
        if c is None or c == 'Pass':
            eq(lg.contract.is_passed_out() and lg.declarer is None and lg.contract.declarer is None and lg.contract.vul is be.VUL[r['vul']],
               'contract (passed out)', lg.contract)
        else:
            bid, dbl, decl = c
            ok = (lg.contract.final_bid is be.BID[bid] and be.dbl_status(lg.contract) == dbl and lg.contract.vul is be.VUL[r['vul']]
                  and lg.contract.declarer is be.SEAT[decl] and lg.declarer is be.SEAT[decl])
            eq(ok, 'contract/doubling/declarer', (lg.contract, lg.declarer))
        if r['play'] is None:
            eq(lg.play_history is None, 'play_history (none)', lg.play_history)
        else:
            ph = lg.play_history
            eq(ph is not None and len(ph) == len(r['play']), 'play_history length', ph)
            for t, (leader, cards) in zip(ph, r['play']):
                eq(type(t.leader) is Player and t.leader is be.SEAT[leader], "play_history: trick leader is not the seat (Player) that was written", t.leader)
                eq(tuple(t.cards) == tuple(be.CARD[x] for x in cards) and all(type(x) is Card for x in t.cards), 'play_history cards', t.cards)
        eq(lg.taken_trick == r['tricks'], 'taken_trick', lg.taken_trick)
        eq(lg.score_type == Scoring[r['scoring']].value, 'score_type', lg.score_type)
        sc = lg.scores
        eq(isinstance(sc, dict) and all(type(k) is Pair for k in sc) and sc.get(be.PAIR[0]) == r['scores'][0] and sc.get(be.PAIR[1]) == r['scores'][1]
           and len(sc) == 2, 'scores are not keyed by side (Pair) with the written values', sc)
        eq(lg.dda == mk_dda(r['dda']) and (lg.dda is None or all(type(k) is Player and all(type(s) is Suit for s in v) for k, v in lg.dda.items())),
           'dda', lg.dda)
    # (4) the same document as a board-settings source
    bs = guard('parse_board_settings raises on a written log', case, JsonParser().parse_board_settings, io.StringIO(text))
    check(len(bs) == len(results), 'parse_board_settings returns a different number of boards', case, {'got': len(bs)})
    for i, (r, b) in enumerate(zip(results, bs)):
        ok = (b.board_id == r['board_id'] and b.dealer is be.SEAT[r['dealer']] and b.vul is be.VUL[r['vul']]
              and be.hands_to_ints(b.hands) == PL.hands_of(r['owner']) and b.dda == mk_dda(r['dda']))
        check(ok, 'log read as board settings yields a different board', dict(case, record=i), {'got': repr(b)[:300]})
    if stats is not None:
        stats.evaluated()
        stats.cls(f'medium: {medium}')
        if any(a == b for a, b in zip(results, results[1:])):
            stats.cls('documents with the same result twice in a row')
        stats.cls(f'documents with {min(len(results), 3)}{"+" if len(results) >= 3 else ""} results')
        po = any(r['contract'] is None or r['contract'] == 'Pass' for r in results)
        played = any(r['contract'] not in (None, 'Pass') and r['play'] and r['dda'] is not None for r in results)
        if any(any(ord(ch) > 127 for ch in r['board_id'] + ''.join(r['players'])) for r in results):
            stats.cls('documents with non-ASCII ids/names')
        if any(not A.is_legal_sequence(r['dealer'], r['auction']) for r in results):
            stats.cls('documents with an arbitrary (not legal) call list')
        if len(results) >= 2 and po and played:
            stats.nt(text, {'records': len(results), 'text_prefix': text[:160]} if len(results) == 2 else None)


def fuzz_target(name, stats):
    """(test function, strategies) - shared by the in-process Hypothesis tier and the atheris tier."""
    return (lambda results, use_with, medium, poison, abort: check_document(results, use_with, stats, medium, poison, abort),
            {'results': st.tuples(st.lists(GB.result(JSONISH), min_size=0, max_size=8), st.one_of(st.none(), st.none(), st.integers(0, 7)))
                .map(lambda t: t[0] if t[1] is None or not t[0] else t[0][:t[1] % len(t[0]) + 1] + t[0][t[1] % len(t[0]):]),     # sometimes the same result twice in a row
             'use_with': st.booleans(),
             'medium': st.sampled_from(MEDIA), 'poison': st.one_of(st.just([]), st.just([]), st.lists(st.integers(0, 7), max_size=2)),
             'abort': st.one_of(st.none(), st.none(), st.none(), st.tuples(st.integers(0, 6), st.sampled_from(sorted(ABORTS))))})


def run_shard(spec, seed, tier, stats):
    if spec['kind'] == 'fuzz':
        from vf.common.fuzz import run_fuzz_shard
        return run_fuzz_shard(ID, spec, seed, stats)
    fn, strategies = fuzz_target('documents', stats)
    v = run_hypothesis(fn, strategies, seed, spec['n'], tier == 'thorough')
    return [v] if v else []


def replay(rec):
    c = rec['case']
    try:
        check_document([undescribe(d) for d in c['results']], c['use_with'], None, c.get('medium', 'stringio'), c.get('failed_writes_before', ()), c.get('with_block_left_by'))
    except Violation as v:
        return v
    return None
