"""C08 - the table manager's log records exactly what was played (and does not depend on thread timing)."""
from hypothesis import strategies as st
from vf.common.core import Violation, run_hypothesis
from vf.props import _session as SE

ID = 'C08'
USES_SIM = True
LEVEL = 'exploration'
RULE = ('simulated sessions (as C09): 1-3 boards (quick) / 1-6 (thorough), each a generated deal, dealer, vulnerability, '
        'id text and optional double-dummy table; four reference clients execute a generated script - a complete legal '
        'auction, 52 plays (follow suit with occasional revokes), card notation rank-suit or suit-rank per seat, letter case '
        '(as documented, lower, upper, per-character mask), " Alert." suffixes, runs of blanks in ready lines, split '
        'deliveries, team names, arrival order - under TWO independently generated thread schedules. Oracle: '
        'json.load(output file) equals the document computed by the independent models on number and order of boards, '
        'board_id, dealer, vulnerability, deal, bid_history, contract, declarer, play_history (leader + 4 cards per '
        'trick), taken_trick (declarer\'s side), scores (model scorer; NS = -EW; passed out => null play/tricks, 0/0); '
        'metamorphic: the file written under the second schedule is byte-identical. A few sessions per run (more in the thorough tier) are played once more on REAL threads over REAL loopback sockets (only the server\'s 1 s pauses shortened): same oracles, byte-identical log and identical transcripts required; a wall-clock safety net there means inconclusive. One session per run has 101 (thorough: 257) configured boards. evaluations = sessions run. '
        'Non-trivial = session with a played board in which declarer\'s side is EW, or the contract is doubled/redoubled, '
        'or dummy leads a trick, run under a non-sequential schedule; distinct by scenario hash.')
ASSUMPTIONS = ['simulation kernel fidelity (DESIGN.md 4.3/4.5)', 'fields the statement does not mention (players, score_type, dda) belong to C12']


def plan(tier):
    n, per = (16, 110) if tier == 'quick' else (16, 3000)
    mb = 3 if tier == 'quick' else 6
    sh = [{'kind': 'sessions', 'n': per, 'max_boards': mb, 'play_prob': 5} for i in range(n)]
    # the same scenarios once more on real threads + real loopback sockets (differential against the simulator, and the
    # oracles in their own right)
    nr, perr = (4, 4) if tier == 'quick' else (16, 40)
    return sh + [{'kind': 'real-sockets', 'n': perr, 'max_boards': 2, 'play_prob': 2} for _ in range(nr)] + [{'kind': 'long-session', 'boards': 101 if tier == 'quick' else 257}]


def check_session(scenario, schedule, stats=None, schedule2=None, real_sockets=False, **kw):
    if real_sockets:
        return check_real(scenario, stats)
    r = SE.run_case(scenario, schedule)
    SE.first_problem(SE.completion_problems(scenario, r), scenario, schedule, r)
    probs = SE.log_problems(scenario, r)
    if probs:
        clause, detail = probs[0]
        raise Violation(clause, SE.case_of(scenario, schedule, r, {'schedule2': schedule2}), detail)
    if schedule2 is not None:
        r2 = SE.run_case(scenario, schedule2)
        SE.first_problem(SE.completion_problems(scenario, r2), scenario, schedule2, r2)
        if r2.output_text != r.output_text:
            raise Violation('the log depends on thread timing: two schedules of the same session wrote different files',
                            SE.case_of(scenario, schedule, r, {'schedule2': schedule2}),
                            {'first': r.output_text[:300], 'second': r2.output_text[:300]})
    turned = None
    if schedule2 is not None and SE.h64(scenario) % 3 == 0:
        # the same session turned one seat round (every hand, the dealer and with them the declarer move to the next seat; the
        # vulnerability stays), played in the same process right afterwards: it is a session like any other and must be logged
        # as the model says - in particular with the score of the OTHER side's vulnerability
        turned = dict(scenario, intruders=[], boards=[dict(b, owner=[(o + 1) % 4 for o in b['owner']], dealer=(b['dealer'] + 1) % 4)
                                                       for b in scenario['boards']])
        r3 = SE.run_case(turned, schedule2)
        probs = SE.completion_problems(turned, r3) or SE.log_problems(turned, r3)
        if probs:
            raise Violation('the same session turned one seat round: ' + probs[0][0], SE.case_of(scenario, schedule, r3, {'schedule2': schedule2, 'turned': True}), probs[0][1])
    if stats is not None:
        stats.evaluated((2 if schedule2 is not None else 1) + (1 if turned else 0))
        if turned:
            stats.cls('sessions also played turned one seat round (same vulnerability, other side declares)')
        f = SE.scenario_features(scenario, schedule)
        for x in f:
            stats.cls(x)
        if 'played board' in f and f & {'declarer EW', 'doubled/redoubled contract', 'dummy leads a trick'} and 'non-sequential schedule' in f:
            stats.nt(scenario, {'scenario': SE.brief(scenario), 'log_prefix': r.output_text[:200]} if len(scenario['boards']) == 1 else None)


def check_real(scenario, stats=None):
    sim = SE.run_case(scenario, {'kind': 'sequential'})
    SE.first_problem(SE.completion_problems(scenario, sim), scenario, {'kind': 'sequential'}, sim)
    probs = SE.real_session_problems(scenario, sim)
    if probs is None:
        if stats is not None:
            stats.excluded['real-socket run stopped by the wall-clock safety net (skipped, not judged)'] += 1
        return
    if probs:
        clause, detail = probs[0]
        raise Violation(clause, SE.case_of(scenario, {'kind': 'sequential'}, sim, {'real_sockets': True}), detail)
    if stats is not None:
        stats.evaluated()
        stats.cls('sessions repeated on real threads + loopback sockets (byte-identical log, same transcripts)')


def long_scenario(n):
    """"every non-empty list of boards": a configured list longer than the 100 boards of a session without settings."""
    owner = [(c // 13 + (c % 13) % 4) % 4 for c in range(52)]
    boards = [{'id': f'L{i + 1}', 'dealer': i % 4, 'vul': ['None', 'NS', 'EW', 'Both'][(i // 4) % 4], 'owner': owner, 'dda': None,
               'calls': [35, 35, 35, 35], 'cards': []} for i in range(n)]
    return {'boards': boards, 'teams': ['ns', 'ew'], 'arrival': [0, 1, 2, 3], 'fmt': {}, 'intruders': []}


def run_shard(spec, seed, tier, stats):
    if spec['kind'] == 'long-session':
        try:
            check_session(long_scenario(spec['boards']), {'kind': 'sequential'}, stats)
            stats.cls(f'one session of {spec["boards"]} configured boards (all passed out)')
        except Violation as v:
            return [v]
        return []
    if spec['kind'] == 'real-sockets':
        v = run_hypothesis(lambda scenario: check_real(scenario, stats), {'scenario': SE.SCENARIO(1, spec['max_boards'], spec['play_prob'])},
                           seed, spec['n'], False)
        return [v] if v else []
    v = run_hypothesis(lambda scenario, schedule, schedule2: check_session(scenario, schedule, stats, schedule2=schedule2),
                       {'scenario': SE.SCENARIO(1, spec['max_boards'], spec['play_prob']), 'schedule': SE.SCHEDULE(),
                        'schedule2': SE.SCHEDULE()}, seed, spec['n'], tier == 'thorough')
    return [SE.reduce_violation(check_session, v)] if v else []


def replay(rec):
    return SE.replay('C08', rec)
