"""Concurrent use of plain library calls: two (or three) calls run as tasks of the schedule-owning kernel with a scheduling
point at EVERY source line of bridge_env they execute (Kernel.trace_files), on a freshly imported package per schedule
(so that lazily initialised module state is in its first-use condition every time).  All schedules with at most one
(optionally two) deviations from "run each call to completion in turn" are enumerated.

Oracle: what each call returns must be what the same call returns when made alone on a fresh package (for the random
dealer: a valid deal).  A violation is backed by an explicit line-level schedule; CPython may switch threads between any
two bytecodes, so every line-boundary interleaving is one real threads can produce."""
from __future__ import annotations

import random
import sys

from vf.common.core import REPO, Violation
from vf.sim import objects as O
from vf.sim.explore import Preemptions
from vf.sim.kernel import Kernel


def fresh_pkg():
    for k in list(sys.modules):
        if k == 'bridge_env' or k.startswith('bridge_env.'):
            del sys.modules[k]
    import bridge_env
    return bridge_env


def _run(prog, at, order, rec=None, seed=0, trace=('/bridge_env/',)):
    B = fresh_pkg()
    thunks = prog(B)
    random.seed(seed)
    k = Kernel(Preemptions(at, order, rec), max_steps=20000)
    k.trace_files = tuple(trace)
    O.set_kernel(k)
    out = [None] * len(thunks)

    def mk(i, th):
        def body():
            try:
                out[i] = th()
            except Exception as e:  # noqa
                out[i] = ('#raised', f'{type(e).__name__}: {e}'[:200])
        return body
    for i, th in enumerate(thunks):
        k.spawn(mk(i, th), f'call-{i}', required=True)
    try:
        o = k.run()
    finally:
        O.set_kernel(None)
    return out, o


def alone(prog, seed=0):
    """Each call made alone on a fresh package."""
    res = []
    n = len(prog(fresh_pkg()))
    for i in range(n):
        B = fresh_pkg()
        random.seed(seed)
        try:
            res.append(prog(B)[i]())
        except Exception as e:  # noqa
            res.append(('#raised', f'{type(e).__name__}: {e}'[:200]))
    return res


def explore(name, prog, oracle, stats, bound=1, orders=(0, 1), max_runs=4000, trace=('/bridge_env/',), shard=0, of=1):
    """oracle(results, expected_alone) -> None or (clause, detail)."""
    expected = alone(prog)
    runs = 0
    for order in orders:
        rec = []
        res, o = _run(prog, {}, order, rec, trace=trace)
        pts = [(step, k) for step, n in rec for k in range(1, n)]
        todo = [{}] + [{s: k} for s, k in pts]
        if bound >= 2:
            todo += [{s: k, s2: k2} for i, (s, k) in enumerate(pts) for (s2, k2) in pts[i + 1:] if s2 > s][: max_runs]
        for j, at in enumerate(todo):
            if runs >= max_runs:
                break
            if j % of != shard:
                continue
            res, o = _run(prog, at, order, trace=trace)
            runs += 1
            bad = None
            if o.status != 'completed':
                bad = ('concurrent library calls did not finish', {'status': o.status, 'blocked': o.detail})
            else:
                bad = oracle(res, expected)
            if bad:
                raise Violation(f'{name}: {bad[0]}', {'concurrent_program': name, 'deviations': {str(s): k for s, k in at.items()},
                                                      'default_order': order, 'trace': o.trace},
                                dict(bad[1], results=[repr(r)[:200] for r in res], alone=[repr(r)[:200] for r in expected]))
            if stats is not None:
                stats.evaluated()
                if at:
                    stats.nt(['conc', name, order, sorted(at.items())], {'concurrent_program': name, 'deviations': sorted(at.items()), 'steps': o.steps}
                             if len(stats.samples) < 1 else None)
        if stats is not None:
            stats.cls(f'concurrent calls: {name} (line-level schedules, <= {bound} deviations, order {order})', len([j for j in range(len(todo)) if j % of == shard]))
    return runs


def same_as_alone(res, expected):
    for i, (r, e) in enumerate(zip(res, expected)):
        if r != e:
            return ('a call returns something else when another call runs concurrently', {'call': i, 'got': repr(r)[:300], 'alone': repr(e)[:300]})
    return None


def replay(rec, programs):
    c = rec['case']
    name = c['concurrent_program']
    prog, oracle, trace = programs[name]
    expected = alone(prog)
    res, o = _run(prog, {int(s): k for s, k in c['deviations'].items()}, c.get('default_order', 0), trace=trace)
    bad = oracle(res, expected) if o.status == 'completed' else ('concurrent library calls did not finish', {'status': o.status})
    if bad:
        return Violation(f'{name}: {bad[0]}', c, bad[1])
    return None
