"""C11 - all replicas of a board agree with the table manager.
Part (a): in process, one PlayingPhaseWithHands and four ObservedPlayingPhase fed the same plays.
Part (b): simulated sessions with four bundled Clients driven by generated policies (vf/sim)."""
from hypothesis import strategies as st
from vf.common.core import Violation, check, guard, run_hypothesis
from vf.common import be
from vf.model import auction as A, play as P
from vf.props import _play as PL
from vf.props.c04 import parse_board_case, _parse_cards, trick_kind

ID = 'C11'
USES_SIM = True
LEVEL = 'exploration'
RULE_A = ('(a) in process: generated deal, contract (35 bids x 4 declarers) and 52 plays (revokes included) fed to one '
          'PlayingPhaseWithHands and to four ObservedPlayingPhase (own hand; dummy\'s hand set after the opening lead, '
          'not for dummy itself - what the client does); after EVERY card all five must agree on contract, declarer, '
          'dummy, turn, trick number, leader, trick history, counts, has_done and with the law model, and no replica '
          'may raise. Non-trivial (a) = board with a trick led by dummy and a ruff; distinct by (contract, declarer, '
          'first 8 cards).')
RULE_B = (' (b) simulated sessions (schedule-owning kernel, vf/sim): four bundled Clients with generated legal bidding '
          'and playing policies play 1-3 boards against the Server under a generated thread schedule; every client must '
          'return normally when the server does, and per board its Client.bidding_phase() contract/declarer and its '
          'ObservedPlayingPhase at the end of the board (history, counts, trick number) must equal the server\'s log. '
          'Non-trivial (b) = session with a played board; distinct by scenario hash. A few sessions per run (12 quick / '
          '480 thorough) are repeated with the same policies on REAL threads and REAL loopback sockets: same replica oracle, and '
          'the log must be byte-identical to the simulated run.')
RULE = RULE_A + RULE_B
ASSUMPTIONS = ['observers are fed exactly the public play sequence; dummy hand is disclosed after the first card',
               'part (b): see DESIGN.md section 4 for the fidelity assumptions of the simulation kernel']


def plan(tier):
    n, per = (8, 500) if tier == 'quick' else (12, 6000)
    sh = [{'kind': 'replicas', 'n': per} for _ in range(n)]
    from vf.props import _session
    return sh + _session.plan_c11(tier)


def _board(bid, owner, declarer, dbl, vul, plays, stats=None):
    b = PL.Board(owner, (bid, declarer, dbl, vul), observers=True)
    cards, revokes = PL.script_cards(owner, declarer, bid % 5, plays)
    dummy_led = ruff = False

    def agree():
        ref = PL.pub_state(b.env)
        exp = PL.model_state(b.m)
        if ref != exp:
            ks = PL.diff_keys(exp, ref)
            raise Violation('table manager disagrees with the laws: ' + ','.join(ks), b.case(), {k: {'got': ref[k], 'expected': exp[k]} for k in ks})
        for o, ob in enumerate(b.obs):
            got = PL.pub_state(ob)
            if got != ref:
                ks = PL.diff_keys(ref, got)
                raise Violation('observer disagrees with the table manager: ' + ','.join(ks), b.case({'observer': A.SEATS[o]}),
                                {k: {'observer': got[k], 'table manager': ref[k]} for k in ks})
            check(ob.contract == b.env.contract, 'observer holds a different contract', b.case({'observer': A.SEATS[o]}))
    agree()
    k = bid * 4 + declarer
    for i, c in enumerate(cards):
        if len(b.m.trick) == 0 and b.m.turn == b.m.dummy:
            dummy_led = True
        if (i + k) % 5 == 0:
            # actions that everybody refuses (out of turn, card of another seat, card already played) are offered to the
            # table manager and to every replica in between: afterwards the replicas must still follow the table manager
            # (an observer is only offered what it can recognise: out-of-turn plays, and cards of its own / the faced
            # dummy's hand - it cannot know that a concealed seat does not hold a card)
            for o, env in [(None, b.env)] + list(enumerate(b.obs)):
                for card, seat, what in PL.fault_candidates(b, observer=o)[: 1 + (k + i) % 3]:
                    try:
                        env.play_card_by_player(be.CARD[card], be.SEAT[seat])
                    except Exception:  # noqa  (whether it is refused cleanly is C05's business)
                        pass
            if stats is not None:
                stats.cls('refused actions offered to all replicas in between')
        b.play(c)
        agree()
        if stats is not None:
            stats.evaluated()
        if i % 4 == 3 and trick_kind(cards[i - 3:i + 1], bid % 5)[1] in ('ruff', 'over-ruff'):
            ruff = True
    if stats is not None:
        stats.cls('replica boards')
        if dummy_led:
            stats.cls('replica boards with a dummy lead')
        if revokes:
            stats.cls('replica boards with a revoke')
        if dummy_led and ruff:
            stats.nt(['a', bid, declarer, cards[:8]], {'contract': A.call_name(bid), 'declarer': A.SEATS[declarer],
                                                        'first_8': PL.fmt_cards(cards[:8])} if bid % 7 == 0 else None)


def run_shard(spec, seed, tier, stats):
    if spec['kind'] == 'replicas':
        v = run_hypothesis(lambda bid, owner, declarer, dbl, vul, plays: _board(bid, owner, declarer, dbl, vul, plays, stats),
                           {'bid': st.integers(0, 34), 'owner': PL.DEAL, 'declarer': st.integers(0, 3), 'dbl': st.integers(0, 2),
                            'vul': st.sampled_from(be.VUL_NAMES), 'plays': PL.PLAYS}, seed, spec['n'], tier == 'thorough')
        return [v] if v else []
    from vf.props import _session
    return _session.run_shard_c11(spec, seed, tier, stats)


def check_session(scenario, schedule, stats=None, policy=None, **kw):
    from vf.props import _session
    if kw.get('real_sockets'):
        return _session.check_bundled_real(scenario, policy, stats)
    return _session.check_bundled(scenario, schedule, policy, stats)


def replay(rec):
    c = rec['case']
    if 'scenario' in c:
        from vf.props import _session
        return _session.replay('C11', rec)
    try:
        owner, contract = parse_board_case(c)
        cards = _parse_cards(c['played']) + (_parse_cards([c['next']]) if 'next' in c else [])
        plays = []
        hands = [set(h) for h in PL.hands_of(owner)]
        m = P.Play(contract[1], contract[0] % 5)
        for x in cards:
            s = m.turn
            plays.append((False, sorted(hands[s]).index(x)))
            hands[s].discard(x); m.play(x)
        while len(plays) < 52:
            plays.append((True, 0))
        _board(contract[0], owner, contract[1], contract[2], contract[3], plays)
    except Violation as v:
        return v
    return None
