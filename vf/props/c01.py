"""C01 - the auction accepts exactly the calls the Laws allow."""
from hypothesis import strategies as st
from hypothesis.stateful import RuleBasedStateMachine, rule, invariant, precondition, initialize

from vf.common.core import Violation, run_hypothesis, run_machine
from vf.common import be
from vf.model import auction as A
from vf.props import _auction as AU

ID = 'C01'
LEVEL = 'exploration'
PROPS = {'C01'}
RULE = ('(a) every model-legal call sequence of length <= 3 (quick) / <= 4 (thorough) from each dealer, enumerated '
        'completely; (b) Hypothesis random walks over BiddingPhase(dealer, vul) built by construction from drawn '
        'weights (pass/double propensity, 1-5 strain palette, jump size), up to the 319-call longest auction, all '
        'dealers x vulnerabilities; (c) a Hypothesis RuleBasedStateMachine interleaving legal calls and arbitrary '
        'offers. At EVERY prefix all 38 calls are offered: illegal ones to the live object (must return ILLEGAL and '
        'leave history, per-seat histories, turn, available vector, has_done, contract unchanged), legal ones to '
        'deep copies (must be accepted and extend the history by exactly that call); the advertised vector must '
        'equal the model\'s legal set on all 38 slots. evaluations = offers made. Non-trivial = prefix in which a '
        'bid stands (so X/XX legality is in question); distinct by (dealer, call history).')
ASSUMPTIONS = ['vf/model/auction.py states Laws 18-19 (sufficiency, double, redouble) correctly',
               'copy.deepcopy of a BiddingPhase is an independent equal auction']


def plan(tier):
    depth = 3 if tier == 'quick' else 4
    sh = []
    for d in range(4):
        for chunk in range(4):
            sh.append({'kind': 'exhaustive', 'dealer': d, 'depth': depth, 'chunk': chunk, 'chunks': 4})
    nw, per = (16, 500) if tier == 'quick' else (16, 6000)
    for i in range(nw):
        sh.append({'kind': 'walks', 'n': per // 3 if i % 4 == 3 else per, 'long': i % 4 == 3})
    sh.append({'kind': 'explicit'})
    for i in range(2 if tier == 'quick' else 8):
        sh.append({'kind': 'machine', 'n': 40 if tier == 'quick' else 1500})
    return sh


def _walk_case(dealer, vul, params, steps, stats=None):
    calls = AU.build_auction(dealer, params, steps)
    AU.run_sequence(dealer, vul, calls, PROPS, stats)
    if stats is not None:
        n = len(calls)
        stats.cls('auction length ' + ('<=4' if n <= 4 else '5-12' if n <= 12 else '13-40' if n <= 40 else '41-150' if n <= 150 else '>150'))


class AuctionMachine(RuleBasedStateMachine):
    stats = None

    @initialize(dealer=AU.DEALER, vul=AU.VULN)
    def start(self, dealer, vul):
        self.w = AU.Walk(dealer, vul, PROPS, self.stats, deep_legal=False)

    @precondition(lambda self: not A.finished(self.w.calls))
    @rule(cat=st.integers(0, 99), k=st.integers(0, 34), pw=st.sampled_from([10, 40, 65]), dw=st.sampled_from([0, 30]))
    def legal_call(self, cat, k, pw, dw):
        c = AU.choose_call(self.w.dealer, self.w.calls, cat, k, (pw, dw, (0, 1, 2, 3, 4), 2))
        self.w.take(c)

    @precondition(lambda self: not A.finished(self.w.calls))
    @rule(c=st.integers(0, 37))
    def offer_any(self, c):
        """Offer an arbitrary call; accepted iff legal (on the live object)."""
        legal = A.legal_calls(self.w.dealer, self.w.calls)
        if c in legal:
            self.w.take(c)
        else:
            self.w.offer_illegal(set(range(38)) - {c})  # offers only c

    @precondition(lambda self: A.finished(self.w.calls))
    @rule(dealer=AU.DEALER, vul=AU.VULN)
    def next_board(self, dealer, vul):
        self.w = AU.Walk(dealer, vul, PROPS, self.stats, deep_legal=False)

    @invariant()
    def agrees(self):
        if hasattr(self, 'w') and not A.finished(self.w.calls):
            legal = A.legal_calls(self.w.dealer, self.w.calls)
            av = [int(x) for x in self.w.bp.available_bid]
            if av != [1 if i in legal else 0 for i in range(38)]:
                raise Violation('advertised available calls != legal set', self.w.case(), {'got': av})
            self.w.classify_prefix()


def run_shard(spec, seed, tier, stats):
    k = spec['kind']
    shrink = tier == 'thorough'
    if k == 'exhaustive':
        fails = {}
        d = spec['dealer']
        firsts = [c for c in sorted(A.legal_calls(d, [])) if c % spec['chunks'] == spec['chunk']]
        seqs = [[]] if spec['chunk'] == 0 else []
        for f in firsts:
            seqs += AU.enumerate_legal(d, spec['depth'], first=f)
        for i, calls in enumerate(seqs):
            try:
                w = AU.run_sequence(d, be.VUL_NAMES[i % 4], calls, PROPS, stats, deep_legal=False, every_prefix=False)
                w.classify_prefix()
            except Violation as v:
                fails.setdefault(v.clause, v)
        stats.cls('exhaustive prefixes', len(seqs))
        return list(fails.values())
    if k == 'walks':
        steps = AU.LONG_STEPS if spec['long'] else AU.STEPS
        params = AU.PARAMS_LONG if spec['long'] else AU.PARAMS
        v = run_hypothesis(lambda dealer, vul, params, steps: _walk_case(dealer, vul, params, steps, stats),
                           {'dealer': AU.DEALER, 'vul': AU.VULN, 'params': params, 'steps': steps},
                           seed, spec['n'], shrink)
        return [v] if v else []
    if k == 'explicit':
        fails = {}
        for d in range(4):
            for i, calls in enumerate(AU.explicit_auctions()):
                try:
                    AU.run_sequence(d, be.VUL_NAMES[(d + i) % 4], calls, PROPS, stats)
                    stats.cls('explicit auctions')
                except Violation as v:
                    fails.setdefault(v.clause, v)
        return list(fails.values())
    if k == 'machine':
        M = type('AuctionMachineRun', (AuctionMachine,), {'stats': stats})
        v = run_machine(M, seed, spec['n'], 60, shrink)
        return [v] if v else []
    raise AssertionError(k)


def replay(rec):
    c = rec['case']
    names = [A.call_name(i) for i in range(38)]
    calls = [names.index(x) for x in c['calls']]
    try:
        AU.run_sequence(A.SEATS.index(c['dealer']), c['vul'], calls, PROPS)
    except Violation as v:
        return v
    return None
