"""Shared walker for C01/C02/C03: drives bridge_env.BiddingPhase along a call sequence and
compares every observable with the independent model vf/model/auction.py at every prefix."""
from __future__ import annotations

import copy
import pickle

from hypothesis import strategies as st

from vf.common.core import Violation, check, guard, h64
from vf.common import be
from vf.model import auction as A

PASS, X, XX = A.PASS, A.X, A.XX


def names(calls):
    return [A.call_name(c) for c in calls]


def snapshot(bp):
    """All public observables of a BiddingPhase as plain values."""
    c = bp.contract()
    return {
        'history': [be.BID_IDX[b] for b in bp.bid_history],
        'players': {A.SEATS[i]: [be.BID_IDX[b] for b in bp.players_bid_history[be.SEAT[i]]] for i in range(4)},
        'turn': None if bp.active_player is None else be.SEAT_IDX[bp.active_player],
        'available': [int(x) for x in bp.available_bid],
        'done': bool(bp.has_done()),
        'contract': None if c is None else repr(c),
    }


def new_phase(dealer, vul, reused=0):
    """reused=0: a fresh object.  reused=k>0: an object that has already run another auction (other dealer and vulnerability,
    a doubled or redoubled contract reached or left standing) and is initialised again for this board by calling its
    __init__ - the usual reset() idiom of an environment; an auction on it is an auction like any other."""
    from bridge_env import BiddingPhase
    if not reused:
        return BiddingPhase(dealer=be.SEAT[dealer], vul=be.VUL[vul])
    bp = BiddingPhase(dealer=be.SEAT[(dealer + reused) % 4], vul=be.VUL[be.VUL_NAMES[(be.VUL_NAMES.index(vul) + reused) % 4]])
    old = [[18, X, PASS, PASS, PASS], [0, X, XX], [PASS, 33, X], [7, PASS, PASS, X, XX, PASS, PASS, PASS]][reused % 4]
    for c in old:
        bp.take_bid(be.BID[c])
    bp.__init__(dealer=be.SEAT[dealer], vul=be.VUL[vul])
    return bp


def state_enums():
    from bridge_env import BiddingPhaseState
    return BiddingPhaseState


class Walk:
    """One auction under test. props: subset of {'C01','C02','C03'} selects the clauses checked."""

    def __init__(self, dealer, vul, props, stats=None, deep_legal=True, reused=0):
        self.dealer, self.vul, self.props, self.stats = dealer, vul, props, stats
        self.reused = reused
        self.bp = new_phase(dealer, vul, reused)
        if reused and stats is not None:
            stats.cls('auctions on an object re-initialised after another auction')
        self.calls = []
        self.deep_legal = deep_legal
        self.S = state_enums()

    def case(self, extra=None):
        c = {'dealer': A.SEATS[self.dealer], 'vul': self.vul, 'calls': names(self.calls)}
        if self.reused:
            c['object_reused'] = self.reused
        if getattr(self, 'is_fork', False):
            c['on_a_copy_made_by'] = self.forked_by
        if extra:
            c.update(extra)
        return c

    # -- checks at the current prefix -------------------------------------------------
    def check_prefix(self):
        bp, calls, dealer = self.bp, self.calls, self.dealer
        fin = A.finished(calls)
        legal = A.legal_calls(dealer, calls)
        case = self.case()
        if 'C02' in self.props:
            turn = None if fin else A.seat_at(dealer, len(calls))
            got = None if bp.active_player is None else be.SEAT_IDX[bp.active_player]
            check(got == turn, 'turn is not dealer advanced clockwise by the number of calls', case,
                  {'got': got, 'expected': turn})
            check(bool(bp.has_done()) == fin, 'has_done() disagrees with the laws', case, {'got': bp.has_done()})
            hist = [be.BID_IDX[b] for b in bp.bid_history]
            check(hist == calls, 'common history is not the accepted calls', case, {'got': names(hist)})
            for s in range(4):
                exp = [c for i, c in enumerate(calls) if A.seat_at(dealer, i) == s]
                got = [be.BID_IDX[b] for b in bp.players_bid_history[be.SEAT[s]]]
                check(got == exp, "a seat's personal call list is not its share of the history", case,
                      {'seat': A.SEATS[s], 'got': names(got), 'expected': names(exp)})
        if 'C03' in self.props:
            c = bp.contract()
            if not fin:
                check(c is None, 'contract reported before the auction ended', case, {'got': repr(c)})
            else:
                self.check_contract(c, case)
        if 'C01' in self.props and not fin:
            av = [int(x) for x in bp.available_bid]
            exp = [1 if i in legal else 0 for i in range(38)]
            check(av == exp, 'advertised available calls != legal set', case,
                  {'extra': names([i for i in range(38) if av[i] and not exp[i]]),
                   'missing': names([i for i in range(38) if exp[i] and not av[i]])})
            self.offer_illegal(legal)
            if self.deep_legal:
                self.offer_legal_on_copy(legal)
        if 'C01' not in self.props and not fin:
            if not getattr(self, 'is_fork', False):
                self.offer_rejected(legal)
            self.fork(legal)
        if fin and 'C02' in self.props:
            self.offer_after_end()

    def check_contract(self, c, case):
        res = A.result(self.dealer, self.calls)
        check(c is not None, 'no contract reported after the auction ended', case)
        check(c.vul is be.VUL[self.vul], "contract does not carry the board's vulnerability", case,
              {'got': repr(c.vul)})
        if res is None:
            check(c.is_passed_out() and c.declarer is None, 'passed-out board has a contract or declarer', case,
                  {'got': repr(c)})
            return
        bid, dbl, decl = res
        check(not c.is_passed_out() and c.final_bid is be.BID[bid], 'contract is not the last bid', case,
              {'got': repr(c.final_bid), 'expected': A.call_name(bid)})
        check(be.dbl_status(c) == dbl, 'doubling state of the contract is wrong', case,
              {'got': be.dbl_status(c), 'expected': dbl})
        check(c.declarer is be.SEAT[decl], 'declarer is not the first of the side to name the denomination', case,
              {'got': repr(c.declarer), 'expected': A.SEATS[decl]})

    def offer_illegal(self, legal):
        """Every call the model deems illegal is offered to the live object."""
        bp = self.bp
        before = snapshot(bp)
        for c in range(38):
            if c in legal:
                continue
            case = self.case({'offered': A.call_name(c)})
            r = guard('offering an illegal call raises instead of reporting ILLEGAL', case, bp.take_bid, be.BID[c])
            check(r is self.S.ILLEGAL, 'illegal call was accepted', case, {'returned': repr(r)})
            after = snapshot(bp)
            check(after == before, 'rejected call changed the auction', case,
                  {'changed': [k for k in before if before[k] != after[k]]})
            if self.stats is not None:
                self.stats.evaluated()

    def offer_rejected(self, legal):
        """C02/C03 speak about the calls that were MADE: a few calls the model deems illegal (X/XX when inadmissible and
        three insufficient bids picked by a hash of the prefix) are offered to the live object in between and must not
        count - whether they are reported as ILLEGAL is C01's business; here only what follows is compared."""
        illegal = [c for c in range(38) if c not in legal]
        if not illegal:
            return
        k = h64([self.dealer, self.calls, 'rej'])
        pick = {c for c in illegal if c >= 35}
        bids = [c for c in illegal if c < 35]
        if bids:
            pick.update({bids[k % len(bids)], bids[(k >> 8) % len(bids)], bids[-1]})
        for c in sorted(pick):
            try:
                self.bp.take_bid(be.BID[c])
            except Exception:  # noqa
                pass
        if self.stats is not None:
            self.stats.cls('prefixes with rejected calls offered in between')

    def fork(self, legal):
        """A deep copy (or a pickle round trip) of an auction in progress is an auction in its own right (search code forks
        them, workers receive them): at an eighth of the prefixes the copy must show the same state, is then continued with other calls -
        a bid in another denomination, a double, a few passes - under the same checks as any auction, and is thrown away;
        the original must go on as if nothing had happened (compared at the following prefixes and at the end)."""
        k = h64([self.dealer, self.calls, 'fork'])
        if k % 8 or getattr(self, 'is_fork', False):
            return
        by_pickle = (k >> 5) % 2 == 1
        case = self.case({'forked_by': 'pickle round trip' if by_pickle else 'copy.deepcopy'})
        if by_pickle:
            # nothing promises that an auction can be pickled: if it cannot, there is no copy to judge (skipped and counted);
            # a round trip that succeeds must give an auction in the same state
            try:
                cp = pickle.loads(pickle.dumps(self.bp))
            except Exception:  # noqa
                if self.stats is not None:
                    self.stats.excluded['auction object could not be pickled (fork skipped)'] += 1
                return
        else:
            cp = guard('copying an auction in progress raises', case, lambda: copy.deepcopy(self.bp))
        sub = Walk.__new__(Walk)
        sub.__dict__.update(self.__dict__)
        sub.bp, sub.calls, sub.stats, sub.is_fork, sub.deep_legal = cp, list(self.calls), None, True, False
        sub.forked_by = case['forked_by']
        sub.check_prefix()
        for j in range(1 + (k >> 8) % 4):
            lg = sorted(A.legal_calls(self.dealer, sub.calls))
            if A.finished(sub.calls) or not lg:
                break
            sub.take(lg[(k >> (12 + 6 * j)) % len(lg)])
            sub.check_prefix()
        if self.stats is not None:
            self.stats.cls('prefixes where a copy (deepcopy / pickle) was checked, continued under the same checks and discarded')

    def offer_legal_on_copy(self, legal):
        """Legal calls are offered to deep copies (the live object takes only the walk's call)."""
        n = len(self.calls)
        cand = sorted(legal)
        if n > 24:
            # beyond 24 calls: three of the legal calls chosen by a hash of the prefix, plus X/XX
            k = h64([self.dealer, self.calls])
            pick = {cand[k % len(cand)], cand[(k >> 8) % len(cand)], cand[(k >> 16) % len(cand)]}
            pick.update(c for c in cand if c >= 35)
            cand = sorted(pick)
        for c in cand:
            case = self.case({'offered': A.call_name(c)})
            cp = copy.deepcopy(self.bp)
            r = guard('a legal call raises', case, cp.take_bid, be.BID[c])
            check(r is not self.S.ILLEGAL, 'legal call was rejected', case, {'returned': repr(r)})
            hist = [be.BID_IDX[b] for b in cp.bid_history]
            check(hist == self.calls + [c], 'accepted call did not extend the history by exactly that call', case,
                  {'got': names(hist)})
            if 'C02' in self.props:
                fin = A.finished(self.calls + [c])
                check((r is self.S.FINISHED) == fin, 'FINISHED/ONGOING does not match the end of the auction', case,
                      {'returned': repr(r), 'auction over': fin})
            if self.stats is not None:
                self.stats.evaluated()

    def offer_after_end(self):
        bp = self.bp
        before = snapshot(bp)
        for c in range(38):
            case = self.case({'offered_after_end': A.call_name(c)})
            try:
                r = bp.take_bid(be.BID[c])
            except Exception:  # refused with an error, as the property demands
                r = None
            else:
                raise Violation('call after the end of the auction was not refused with an error', case,
                                {'returned': repr(r)})
            after = snapshot(bp)
            check(after == before, 'call after the end changed the auction', case,
                  {'changed': [k for k in before if before[k] != after[k]]})
            if self.stats is not None:
                self.stats.evaluated()

    # -- advancing ---------------------------------------------------------------------
    def take(self, c):
        """Take a call the model deems legal on the live object."""
        case = self.case({'next': A.call_name(c)})
        r = guard('a legal call raises', case, self.bp.take_bid, be.BID[c])
        check(r is not self.S.ILLEGAL, 'legal call was rejected', case, {'returned': repr(r)})
        self.calls.append(c)
        fin = A.finished(self.calls)
        if 'C02' in self.props:
            check((r is self.S.FINISHED) == fin, 'FINISHED/ONGOING does not match the end of the auction', case,
                  {'returned': repr(r), 'auction over': fin})
        if self.stats is not None:
            self.stats.evaluated()
        return fin

    # -- statistics ----------------------------------------------------------------------
    def classify_prefix(self):
        st_, calls = self.stats, self.calls
        if st_ is None:
            return
        legal = A.legal_calls(self.dealer, calls)
        last_bid, last_bidder, dbl = A.analyse(self.dealer, calls)
        if 'C01' in self.props and last_bid is not None and not A.finished(calls):
            turn = A.seat_at(self.dealer, len(calls))
            if X in legal:
                st_.cls('X legal for LHO' if (turn - last_bidder) % 4 == 1 else 'X legal for RHO')
            if XX in legal:
                st_.cls('XX legal for bidder' if turn == last_bidder else 'XX legal for partner')
            if X not in legal and dbl == 0:
                st_.cls('X of own side rejected')
            # a bid stands: X/XX legal or an illegal X/XX/insufficient bid was rejected
            st_.nt([self.dealer, calls], self.case() if len(calls) in (2, 7, 30) else None)


def run_sequence(dealer, vul, calls, props, stats=None, deep_legal=True, every_prefix=True, reused=None):
    """Walk a complete (model-legal) call sequence, checking at every prefix."""
    if reused is None:          # one sequence in six runs on a re-initialised object (a function of the sequence: replayable)
        k = h64([dealer, vul, list(calls), 'reuse'])
        reused = 1 + (k >> 8) % 7 if k % 6 == 0 else 0
    w = Walk(dealer, vul, props, stats, deep_legal, reused=reused)
    if every_prefix:
        w.check_prefix()
        w.classify_prefix()
    for c in calls:
        if c not in A.legal_calls(dealer, w.calls):
            raise AssertionError(f'generator produced an illegal call {A.call_name(c)} after {names(w.calls)}')
        w.take(c)
        if every_prefix:
            w.check_prefix()
            w.classify_prefix()
    if not every_prefix:
        w.check_prefix()
    return w


# ---------------------------------------------------------------------------------------
# generators


def choose_call(dealer, calls, cat, k, params):
    """Map drawn integers onto a legal call (construction, never rejection).
    params: (pass_w, dbl_w, palette(tuple of strains), jump)"""
    pass_w, dbl_w, palette, jump = params
    legal = A.legal_calls(dealer, calls)
    # never end a short auction too eagerly: handled by weights only
    if cat < pass_w:
        return PASS
    if cat < pass_w + dbl_w:
        if X in legal:
            return X
        if XX in legal:
            return XX
    bids = [b for b in sorted(legal) if b < 35 and b % 5 in palette]
    if not bids:
        bids = [b for b in sorted(legal) if b < 35]
    if not bids:
        if X in legal and k % 2:
            return X
        if XX in legal and k % 2:
            return XX
        return PASS
    return bids[min(k % (jump + 1), len(bids) - 1)]


def build_auction(dealer, params, steps, max_len=330):
    calls = []
    for cat, k in steps:
        if A.finished(calls) or len(calls) >= max_len:
            break
        calls.append(choose_call(dealer, calls, cat, k, params))
    # complete the auction with passes
    while not A.finished(calls):
        calls.append(PASS)
    return calls


PARAMS = st.tuples(
    st.sampled_from([5, 15, 30, 45, 60]),                          # pass weight (of 100)
    st.sampled_from([0, 10, 25, 40]),                              # double/redouble weight
    st.one_of(st.just((0, 1, 2, 3, 4)),
              st.lists(st.integers(0, 4), min_size=1, max_size=2, unique=True).map(tuple)),
    st.sampled_from([0, 0, 1, 3, 8]),                              # jump size
)
PARAMS_LONG = st.tuples(st.sampled_from([5, 20, 35]), st.sampled_from([25, 40, 55]),
                        st.just((0, 1, 2, 3, 4)), st.sampled_from([0, 0, 1]))
STEPS = st.lists(st.tuples(st.integers(0, 99), st.integers(0, 34)), min_size=4, max_size=120)
LONG_STEPS = st.lists(st.tuples(st.integers(0, 99), st.integers(0, 34)), min_size=100, max_size=330)
DEALER = st.integers(0, 3)
VULN = st.sampled_from(be.VUL_NAMES)


def explicit_auctions():
    out = [[PASS] * 4, [PASS, PASS, PASS, 0, PASS, PASS, PASS], [0, PASS, PASS, X, PASS, PASS, PASS],
           [34, X, XX, PASS, PASS, PASS], [0, X, PASS, PASS, XX, PASS, PASS, PASS],
           [0, PASS, 5, PASS, PASS, X, PASS, PASS, 10, PASS, PASS, PASS],
           [2, 3, 7, 8, 12, 13, 17, X, PASS, PASS, PASS], A.longest_auction()]
    return out


def enumerate_legal(dealer, depth, first=None):
    """All model-legal call sequences of length <= depth (optionally starting with `first`)."""
    out = []

    def rec(calls):
        out.append(list(calls))
        if len(calls) >= depth or A.finished(calls):
            return
        for c in sorted(A.legal_calls(dealer, calls)):
            calls.append(c)
            rec(calls)
            calls.pop()

    if first is None:
        rec([])
    else:
        rec([first])
    return out


def abstract_moves(dealer, calls):
    """Abstract alphabet: Pass, cheapest bid, cheapest bid in the first-named strain (if different), X, XX."""
    legal = A.legal_calls(dealer, calls)
    mv = []
    if PASS in legal:
        mv.append(PASS)
    bids = [b for b in sorted(legal) if b < 35]
    if bids:
        mv.append(bids[0])
        first = next((c for c in calls if c < 35), None)
        if first is not None:
            same = [b for b in bids if b % 5 == first % 5]
            if same and same[0] != bids[0]:
                mv.append(same[0])
    if X in legal:
        mv.append(X)
    if XX in legal:
        mv.append(XX)
    return mv


def enumerate_shapes(dealer, depth, prefix=()):
    """All sequences over the abstract alphabet up to `depth` calls; unfinished ones are completed by passes."""
    out = []

    def rec(calls):
        if A.finished(calls):
            out.append(list(calls))
            return
        if len(calls) >= depth:
            done = list(calls)
            while not A.finished(done):
                done.append(PASS)
            out.append(done)
            return
        for c in abstract_moves(dealer, calls):
            calls.append(c)
            rec(calls)
            calls.pop()

    rec(list(prefix))
    return out
