"""C04 - tricks are won, led and counted according to the laws of play."""
import itertools
from hypothesis import strategies as st
from vf.common.core import Violation, check, guard, run_hypothesis
from vf.common import be
from vf.model import auction as A, play as P
from vf.props import _play as PL

ID = 'C04'
LEVEL = 'exploration'
RULE = ('(a) whole boards through PlayingPhaseWithHands.play_card_by_player: contract = 35 bids x 4 declarers x doubling x vulnerability drawn '
        'uniformly, deal = Hypothesis (sorted deck + k drawn transpositions => voids/long suits, or a uniform '
        'permutation), 52 play choices each "follow suit (index into the model\'s follow set)" or "any card of the hand" '
        '(revokes); after EVERY card leader, turn, trick number, both trick counts, has_done, dummy and the recorded '
        'history are compared with vf/model/play.py; (b) single-trick differential on the hand-less PlayingPhase: 4 '
        'distinct generated cards x 5 strains x 4 declarers. evaluations = cards played + single tricks. Non-trivial '
        '= board containing a trick won by a ruff, an over-ruff or lost by a higher off-suit discard, or any NT '
        'board; distinct by (contract, declarer, first 8 cards).')
ASSUMPTIONS = ['vf/model/play.py states Law 44 (trick winner) and Law 41 (opening lead, dummy) correctly']


def plan(tier):
    nb, per = (12, 900) if tier == 'quick' else (16, 9500)
    sh = [{'kind': 'boards', 'n': per, 'offset': i * 12} for i in range(nb)]
    nt, pert = (4, 12000) if tier == 'quick' else (8, 60000)
    sh += [{'kind': 'tricks', 'n': pert} for _ in range(nt)]
    return sh


def trick_kind(cards, strain):
    w = P.trick_winner_pos(cards, strain)
    led = cards[0] // 13
    trumps = [i for i, c in enumerate(cards) if strain != 4 and c // 13 == strain and led != strain]
    if trumps and len(trumps) >= 2:
        kind = 'over-ruff'
    elif trumps:
        kind = 'ruff'
    else:
        hi_off = any(c // 13 != led and c % 13 > cards[w] % 13 for c in cards)
        kind = 'higher off-suit discard loses' if hi_off else 'plain'
    return w, kind


def with_observers(bid, declarer):
    """Half of the boards are also followed by four single-seat observers (the same laws hold for every playing phase)."""
    return (bid + declarer) % 2 == 0


def second_table(bid, declarer):
    """The other half of the boards are played at TWO tables in lockstep (a duplicate match in one process): the same deal,
    declarer and playing choices under a contract in another denomination; each table must obey the laws on its own."""
    if with_observers(bid, declarer):
        return None
    return (bid // 5) * 5 + (bid % 5 + 1 + (bid // 5 + declarer) % 4) % 5


def _board(bid, owner, declarer, dbl, vul, plays, stats=None):
    try:
        return _board1(bid, owner, declarer, dbl, vul, plays, stats)
    except Violation as v:
        if second_table(bid, declarer) is not None:
            v.case = dict(v.case, two_tables={'bid': bid, 'declarer': declarer, 'dbl': dbl, 'vul': vul, 'owner': list(owner),
                                              'plays': [list(x) for x in plays]})
        raise


def _board1(bid, owner, declarer, dbl, vul, plays, stats=None):
    b = PL.Board(owner, (bid, declarer, dbl, vul), observers=with_observers(bid, declarer))
    cards, revokes = PL.script_cards(owner, declarer, bid % 5, plays)
    bid2 = second_table(bid, declarer)
    b2 = cards2 = None
    if bid2 is not None:
        # a board abandoned in the middle of a trick (the session was stopped): it must not matter to the boards that follow
        b0 = PL.Board(owner, (bid2, (declarer + 1) % 4, 0, vul))
        for c in PL.script_cards(owner, (declarer + 1) % 4, bid2 % 5, plays)[0][:1 + bid % 3]:
            b0.play(c)
        b2 = PL.Board(owner, (bid2, declarer, dbl, vul))
        cards2 = PL.script_cards(owner, declarer, bid2 % 5, plays)[0]
        b2.check_laws()
    case0 = b.case()
    check(b.env.leader is be.SEAT[(declarer + 1) % 4] and b.env.dummy is be.SEAT[(declarer + 2) % 4],
          'opening lead / dummy', case0, {'leader': repr(b.env.leader), 'dummy': repr(b.env.dummy)})
    b.check_laws()
    interesting = bid % 5 == 4
    for i, c in enumerate(cards):
        if (i + bid) % 6 == 0:
            # plays that are REFUSED (out of turn, card of another seat, card already played) are not plays: offered in
            # between, they must not win, lead, count or enter the history (that they are refused cleanly is C05's business)
            for o, env in [(None, b.env)] + list(enumerate(b.obs or [])):
                for card, seat, what in PL.fault_candidates(b, observer=o):
                    try:
                        env.play_card_by_player(be.CARD[card], be.SEAT[seat])
                    except Exception:  # noqa
                        pass
            b.check_laws()
            if stats is not None:
                stats.cls('refused plays offered in between')
        b.play(c)
        b.check_laws()
        if b2 is not None:
            b2.play(cards2[i], 'second table:')
            b2.check_laws()
            b.check_laws()
        if stats is not None:
            stats.evaluated()
            if i % 4 == 3:
                w, kind = trick_kind(cards[i - 3:i + 1], bid % 5)
                stats.cls(f'trick won at position {w}: {kind}')
                if kind != 'plain':
                    interesting = True
    tr = b.env.taken_tricks
    check(tr[be.PAIR[0]] + tr[be.PAIR[1]] == 13 and b.env.has_done(), 'after 13 tricks counts do not total 13 / play not over',
          b.case(), {'tricks': [tr[be.PAIR[0]], tr[be.PAIR[1]]]})
    if stats is not None:
        if b.obs is not None:
            stats.cls('boards also followed by four single-seat observers')
        if b2 is not None:
            stats.cls('boards played at two tables in lockstep (same deal and choices, another denomination), after an abandoned board')
            if cards2[:4] == cards[:4] and trick_kind(cards[:4], bid % 5)[0] != trick_kind(cards[:4], bid2 % 5)[0]:
                stats.cls('two tables: identical first trick won by different seats')
        if revokes:
            stats.cls('boards with >=1 revoke')
        for f in PL.deal_features(owner):
            stats.cls('deal with ' + f)
        if interesting:
            stats.nt([bid, declarer, cards[:8]], {'contract': A.call_name(bid), 'declarer': A.SEATS[declarer],
                                                   'first_trick': PL.fmt_cards(cards[:4])} if bid in (3, 17, 34) else None)


def _trick(cards, strain, declarer, level, stats=None):
    from bridge_env.playing_phase import PlayingPhase
    bid = (level - 1) * 5 + strain
    contract = be.contract_of(bid, 0, 'None', declarer)
    env = PlayingPhase(contract)
    case = {'single_trick': PL.fmt_cards(cards), 'strain': A.STRAINS[strain], 'declarer': A.SEATS[declarer]}
    m = P.Play(declarer, strain)
    for c in cards:
        guard('PlayingPhase.play_card raises', case, env.play_card, be.CARD[c])
        m.play(c)
        got, exp = PL.pub_state(env), PL.model_state(m)
        if got != exp:
            ks = PL.diff_keys(exp, got)
            raise Violation('play state disagrees with the laws: ' + ','.join(ks), case,
                            {k: {'got': got[k], 'expected': exp[k]} for k in ks})
    if stats is not None:
        stats.evaluated()
        w, kind = trick_kind(cards, strain)
        stats.cls(f'single trick won at position {w}: {kind}')
        if kind != 'plain' or strain == 4:
            stats.nt(['t', cards, strain, declarer])


def run_shard(spec, seed, tier, stats):
    shrink = tier == 'thorough'
    if spec['kind'] == 'boards':
        v = run_hypothesis(lambda bid, owner, declarer, dbl, vul, plays: _board(bid, owner, declarer, dbl, vul, plays, stats),
                           {'bid': st.integers(0, 34), 'owner': PL.DEAL, 'declarer': st.integers(0, 3), 'dbl': st.integers(0, 2),
                            'vul': st.sampled_from(be.VUL_NAMES), 'plays': PL.PLAYS}, seed, spec['n'], shrink)
        return [v] if v else []
    cards4 = st.lists(st.integers(0, 51), min_size=4, max_size=4, unique=True)
    # bias: half the tricks drawn from two suits only (ruffs and over-ruffs frequent)
    two_suit = st.tuples(st.integers(0, 3), st.integers(0, 3), st.lists(st.tuples(st.booleans(), st.integers(0, 12)), min_size=4, max_size=4)) \
        .map(lambda t: [(t[0] if a else t[1]) * 13 + r for a, r in t[2]]).filter(lambda cs: len(set(cs)) == 4)
    v = run_hypothesis(lambda cards, strain, declarer, level: _trick(cards, strain, declarer, level, stats),
                       {'cards': st.one_of(cards4, two_suit), 'strain': st.integers(0, 4), 'declarer': st.integers(0, 3),
                        'level': st.integers(1, 7)}, seed, spec['n'], shrink)
    return [v] if v else []


def _parse_cards(xs):
    names = [P.card_name(c) for c in range(52)]
    return [names.index(x) for x in xs]


def replay(rec):
    c = rec['case']
    try:
        if 'single_trick' in c:
            _trick(_parse_cards(c['single_trick']), A.STRAINS.index(c['strain']), A.SEATS.index(c['declarer']), 1)
            return None
        if 'two_tables' in c:
            t = c['two_tables']
            _board(t['bid'], t['owner'], t['declarer'], t['dbl'], t['vul'], [tuple(x) for x in t['plays']])
            return None
        return replay_board(c, lambda b: b.check_laws())
    except Violation as v:
        return v


def parse_board_case(c):
    txt = c['contract']
    dbl = 2 if txt.endswith('XX') else 1 if txt.endswith('X') else 0
    core = txt[:len(txt) - dbl] if dbl else txt
    bid = [A.call_name(i) for i in range(35)].index(core)
    owner = [None] * 52
    for s, seat in enumerate(A.SEATS):
        for x in _parse_cards(c['deal'][seat]):
            owner[x] = s
    return owner, (bid, A.SEATS.index(c['declarer']), dbl, c['vul'])


def replay_board(c, after_each, observers=None):
    owner, contract = parse_board_case(c)
    b = PL.Board(owner, contract, observers=with_observers(contract[0], contract[1]) if observers is None else observers)
    after_each(b)
    cards = _parse_cards(c['played']) + (_parse_cards([c['next']]) if 'next' in c else [])
    for x in cards:
        b.play(x)
        after_each(b)
    return None
