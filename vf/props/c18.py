"""C18 - PBN export is read back by the PBN parser, one game per board."""
import datetime
import io
from hypothesis import strategies as st
from vf.common.core import Violation, check, guard, run_hypothesis
from vf.common import be
from vf.model import auction as A, play as P, pbn as MP
from vf.gen import boards as GB
from vf.props import _play as PL

ID = 'C18'
LEVEL = 'exploration'
RULE = ('sequences of 1-6 board results from Hypothesis: event/site/four player names over letters, digits, space and '
        ". , - _ / ( ) ' + # : (0-100 chars, some up to 230, some exactly as long as one 255-character line allows or 1-3 shorter; runs of blanks included), dates with years 1000-9999, board "
        'number >= 1, every dealer / vulnerability / deal / Scoring member / contract (35 bids x 3 doubling states x '
        'declarer, both passed-out forms) / result 0-13; with and without write_header(); consecutive '
        'write_board_result calls on one PbnWriter over a StringIO - in a third of the cases continued by a SECOND PbnWriter on the same stream - and read either by fresh PbnParser objects or by one parser object used twice. Oracle: PbnParser().parse_all returns exactly n '
        'games in order, each with the 15 mandatory tags carrying the written values (Vulnerable in PBN spelling, '
        'Declarer "" / Result "" / Contract "Pass" when passed out, Deal decoding to the same hands); '
        'parse_board_settings recovers deal, dealer, vulnerability and board number per game; every written line incl. '
        'its newline is <= 255 characters - the last clause also for write_line on generated strings of up to 2000 '
        'characters (whose pieces must concatenate to the original). Non-trivial = sequence with n >= 2 containing a '
        'passed-out and a doubled/redoubled result; distinct by text hash.')
ASSUMPTIONS = ['names are short enough that each tag pair fits on one 255-character line (as the property states)']

ALPHA = GB.PBN_ALPHABET
NAME = st.one_of(st.text(alphabet=ALPHA, max_size=30), st.text(alphabet=ALPHA, max_size=100),
                 st.text(alphabet='ab  1', max_size=10), st.text(alphabet=ALPHA, min_size=200, max_size=230))


def fitting(tag):
    """Names for one tag: the usual ones, plus names whose tag pair is exactly as long as one line allows, or one / two /
    three characters shorter ([Tag "name"] + newline <= 255 characters - the property's 'short enough')."""
    longest = 255 - 1 - len(f'[{tag} ""]')
    edge = st.tuples(st.integers(0, 3), st.text(alphabet=ALPHA, min_size=250, max_size=250)).map(lambda t: t[1][:longest - t[0]])
    return st.one_of(NAME, NAME, NAME, edge)


DATE = st.dates(min_value=datetime.date(1000, 1, 1), max_value=datetime.date(9999, 12, 31))
CONTRACT = st.one_of(st.just(None), st.just('Pass'), st.sampled_from(['None+N', 'None+W', 'Pass+S', 'Pass+E']),   # passed out, and passed out with a declarer still set on the object

                     st.tuples(st.integers(0, 34), st.integers(0, 2), st.integers(0, 3), st.integers(0, 13)),
                     st.tuples(st.integers(0, 34), st.integers(0, 2), st.integers(0, 3), st.integers(0, 13)),
                     st.tuples(st.integers(0, 34), st.integers(1, 2), st.integers(0, 3), st.integers(0, 13)))
RESULT = st.fixed_dictionaries({
    'event': fitting('Event'), 'site': fitting('Site'), 'date': DATE, 'board_num': st.one_of(st.integers(1, 40), st.integers(1, 10 ** 9)),
    'players': st.tuples(fitting('North'), fitting('East'), fitting('South'), fitting('West')).map(list), 'dealer': st.integers(0, 3), 'vul': st.sampled_from(GB.VULS),
    'owner': PL.DEAL, 'scoring': st.sampled_from(GB.SCORINGS), 'contract': CONTRACT})


def plan(tier):
    n, per = (14, 900) if tier == 'quick' else (14, 7000)
    sh = [{'kind': 'export', 'n': per} for _ in range(n)] + [{'kind': 'write_line', 'n': 6000 if tier == 'quick' else 50000}]
    if tier == 'thorough':       # coverage-guided campaigns on the same tests (atheris), own seed and corpus each
        sh += [{'kind': 'fuzz', 'target': 'export', 'runs': 15000} for _ in range(6)] + [{'kind': 'fuzz', 'target': 'write_line', 'runs': 30000}]
    return sh


def mk_contract(r):
    from bridge_env import Contract, Bid
    c = r['contract']
    if c is None:
        return Contract(final_bid=None, vul=be.VUL[r['vul']]), None
    if c == 'Pass':
        return Contract(final_bid=Bid['Pass'], vul=be.VUL[r['vul']]), None
    if isinstance(c, str):      # 'None+N' / 'Pass+S': a passed-out contract object that still carries a declarer
        form, seat = c.split('+')
        return Contract(final_bid=None if form == 'None' else Bid['Pass'], vul=be.VUL[r['vul']], declarer=be.SEAT[A.SEATS.index(seat)]), None
    bid, dbl, decl, tricks = c
    if dbl == 2 and (bid + decl) % 2:
        # the other encoding of a redoubled contract: xx without x
        return Contract(final_bid=be.BID[bid], x=False, xx=True, vul=be.VUL[r['vul']], declarer=be.SEAT[decl]), tricks
    return be.contract_of(bid, dbl, r['vul'], decl), tricks


def describe(r):
    d = dict(r)
    d['date'] = r['date'].isoformat()
    d['owner'] = ''.join('NESW'[o] for o in r['owner'])
    c = r['contract']
    d['contract'] = c if not isinstance(c, (tuple, list)) else [A.call_name(c[0]), c[1], A.SEATS[c[2]], c[3]]
    return d


def undescribe(d):
    r = dict(d)
    r['date'] = datetime.date.fromisoformat(d['date'])
    r['owner'] = ['NESW'.index(ch) for ch in d['owner']]
    c = d['contract']
    if isinstance(c, list):
        r['contract'] = ([A.call_name(i) for i in range(35)].index(c[0]), c[1], A.SEATS.index(c[2]), c[3])
    return r


class LineRecorder(io.StringIO):
    def __init__(self):
        super().__init__()
        self.writes = []

    def write(self, s):
        self.writes.append(s)
        return super().write(s)


def check_export(results, header, stats=None, split=None, reuse=False):
    """split: None or k - the results from index k on are written by a SECOND PbnWriter on the same stream (an export
    continued later); reuse: one PbnParser object reads the text twice (parse_all, then parse_board_settings)."""
    from bridge_env.data_handler.pbn_handler.writer import PbnWriter, Scoring
    from bridge_env.data_handler.pbn_handler.parser import PbnParser
    from bridge_env import Hands
    split = None if split is None or not (0 < split % max(1, len(results)) < len(results)) else split % len(results)
    case = {'results': [describe(r) for r in results], 'header': header, 'second_writer_from': split, 'parser_reused': reuse}
    buf = LineRecorder()

    def write():
        w = PbnWriter(buf)
        if header:
            w.write_header()
        for i, r in enumerate(results):
            if split is not None and i == split:
                w = PbnWriter(buf)
            contract, tricks = mk_contract(r)
            w.write_board_result(event=r['event'], site=r['site'], date=r['date'], board_num=r['board_num'],
                                 west_player=r['players'][3], north_player=r['players'][0], east_player=r['players'][1],
                                 south_player=r['players'][2], dealer=be.SEAT[r['dealer']], deal=be.hands_from_owner(r['owner']),
                                 scoring=Scoring[r['scoring']], contract=contract, taken_tricks=tricks)
    guard('PbnWriter raises', case, write)
    text = buf.getvalue()
    for line in text.splitlines(keepends=True):
        check(len(line) <= 255, 'a written line exceeds 255 characters', case, {'length': len(line), 'line': line[:80]})
    shared = PbnParser()
    games = guard('PbnParser.parse_all raises on PbnWriter output', case, lambda: (shared if reuse else PbnParser()).parse_all(io.StringIO(text)))
    check(len(games) == len(results), 'consecutive board results are not read back as separate games', case,
          {'games_read': len(games), 'results_written': len(results)})
    for i, (r, g) in enumerate(zip(results, games)):
        rc = dict(case, game=i)
        contract, tricks = mk_contract(r)
        po = contract.is_passed_out()
        exp = {'Event': r['event'], 'Site': r['site'], 'Date': '%04d.%02d.%02d' % (r['date'].year, r['date'].month, r['date'].day),
               'Board': str(r['board_num']), 'West': r['players'][3], 'North': r['players'][0], 'East': r['players'][1],
               'South': r['players'][2], 'Dealer': A.SEATS[r['dealer']],
               'Vulnerable': {'None': 'None', 'NS': 'NS', 'EW': 'EW', 'Both': 'All'}[r['vul']],
               'Scoring': Scoring[r['scoring']].value,
               'Declarer': '' if po else A.SEATS[r['contract'][2]],
               'Contract': 'Pass' if po else A.call_name(r['contract'][0]) + ('', 'X', 'XX')[r['contract'][1]],
               'Result': '' if po else str(tricks)}
        missing = [t for t in MP.MANDATORY_EXPORT_TAGS if t not in g]
        check(not missing, 'a mandatory tag is missing from the game read back', rc, {'missing': missing})
        for t, v in exp.items():
            check(g[t] == v, f'tag {t} read back with a different value', rc, {'got': g[t], 'written': v})
        hands = guard('Deal tag does not decode', rc, Hands.convert_pbn, g['Deal'])
        check(be.hands_to_ints(hands) == PL.hands_of(r['owner']), 'Deal tag decodes to different hands', rc, {'Deal': g['Deal']})
        be.use_deal(hands, i)        # the decoded deal is played on; the second read below must still recover the deal written
        check(list(g.keys())[:15] == MP.MANDATORY_EXPORT_TAGS, 'mandatory tags are not in the prescribed order', rc, {'got': list(g.keys())})
    bs = guard('PbnParser.parse_board_settings raises on PbnWriter output', case,
               lambda: (shared if reuse else PbnParser()).parse_board_settings(io.StringIO(text)))
    check(len(bs) == len(results), 'board settings recovered: wrong number of boards', case, {'got': len(bs)})
    for i, (r, b) in enumerate(zip(results, bs)):
        ok = (b.board_id == str(r['board_num']) and b.dealer is be.SEAT[r['dealer']] and b.vul is be.VUL[r['vul']]
              and be.hands_to_ints(b.hands) == PL.hands_of(r['owner']))
        check(ok, 'board setting recovered from the export differs', dict(case, game=i), {'got': repr(b)[:300]})
    if stats is not None:
        stats.evaluated()
        if split is not None:
            stats.cls('export continued by a second writer on the same stream')
        if reuse:
            stats.cls('one parser object used for both reads')
        stats.cls(f'{min(len(results), 3)}{"+" if len(results) >= 3 else ""} results' + (' with header' if header else ''))
        po = any(r['contract'] is None or isinstance(r['contract'], str) for r in results)
        dbl = any(isinstance(r['contract'], tuple) and r['contract'][1] > 0 for r in results)
        if any('  ' in x for r in results for x in [r['event'], r['site']] + r['players']):
            stats.cls('a name with a run of blanks')
        if any(len(x) >= 200 for r in results for x in [r['event'], r['site']] + r['players']):
            stats.cls('a name of >= 200 characters')
        if len(results) >= 2 and po and dbl:
            stats.nt(text, {'text': text[:500]} if len(results) == 2 and len(text) < 1500 else None)


def check_write_line(s, stats=None):
    from bridge_env.data_handler.pbn_handler.writer import PbnWriter
    case = {'write_line': s}
    buf = LineRecorder()
    guard('write_line raises', case, PbnWriter(buf).write_line, s)
    text = buf.getvalue()
    lines = text.split('\n')
    check(text.endswith('\n'), 'write_line output does not end with a newline', case)
    for ln in lines[:-1]:
        check(len(ln) + 1 <= 255, 'a written line exceeds 255 characters', case, {'length': len(ln) + 1})
    check(''.join(lines) == s.rstrip('\n') or ''.join(lines) == s[:-1] if s.endswith('\n') else ''.join(lines) == s,
          'write_line pieces do not concatenate to the original string', case, {'got': ''.join(lines)[:100]})
    if stats is not None:
        stats.evaluated()
        if len(s) > 254:
            stats.cls('write_line longer than one line')
            stats.nt(['wl', s])


def fuzz_target(name, stats):
    """(test function, strategies) - shared by the in-process Hypothesis tier and the atheris tier."""
    if name == 'export':
        return (lambda results, header, split, reuse: check_export(results, header, stats, split, reuse),
                {'results': st.lists(RESULT, min_size=1, max_size=6), 'header': st.booleans(),
                 'split': st.one_of(st.none(), st.none(), st.integers(1, 5)), 'reuse': st.booleans()})
    s = st.one_of(st.text(alphabet=ALPHA, min_size=1, max_size=300), st.text(alphabet=ALPHA, min_size=250, max_size=260),
                  st.text(alphabet=ALPHA, min_size=500, max_size=2000))
    return (lambda s: check_write_line(s, stats), {'s': s})


def run_shard(spec, seed, tier, stats):
    shrink = tier == 'thorough'
    if spec['kind'] == 'fuzz':
        from vf.common.fuzz import run_fuzz_shard
        return run_fuzz_shard(ID, spec, seed, stats)
    fn, strategies = fuzz_target(spec['kind'], stats)
    v = run_hypothesis(fn, strategies, seed, spec['n'], shrink)
    return [v] if v else []


def replay(rec):
    c = rec['case']
    try:
        if 'write_line' in c:
            check_write_line(c['write_line'])
        else:
            check_export([undescribe(d) for d in c['results']], c['header'], None, c.get('second_writer_from'), c.get('parser_reused', False))
    except Violation as v:
        return v
    return None
