"""C20 - admission seats one conforming client per seat and turns the others away."""
import pathlib

from hypothesis import strategies as st
from vf.gen.perm import permutations

from vf.common.core import Violation, Inconclusive, check, run_hypothesis, h64
from vf.common import be
from vf.model import auction as A, protocol as PR
from vf.gen import sessions as GS
from vf.props import _session as SE
from vf.props import _play as PL
from vf.sim import objects as O
from vf.sim.kernel import Kernel, Kill, make_chooser
from vf.sim.install import Installed
from vf.sim.session import ADDR, LineConn, ClientFailure, make_settings, Fmt

ID = 'C20'
USES_SIM = True
LEVEL = 'fault_enumeration'
RULE = ('simulated admission followed by a one-board passed-out session: a generated list of 4-10 connection attempts - exactly '
        'one valid request per seat plus 0-6 invalid ones of kinds wrong protocol version (0-999, not 18), seat already '
        'taken, team name different from the seated partner\'s - in a generated order, seat names in generated letter case, '
        'generated team names (any Unicode without ", CR, LF; the empty name included). Sequential mode: each attempt connects after the previous '
        'one has its verdict (every order of arrival). Concurrent mode: an attempt connects as soon as the attempts it '
        'refers to have their verdict (seat-taken after that seat\'s valid request, team-mismatch after the partner\'s, the '
        'last valid request after all others) and the generated thread schedule decides the rest. Oracle: a seat table '
        'updated in the order in which the server ACCEPTED the connections (recorded by the simulated listener) decides '
        'each verdict; an invalid attempt must read exactly one line reporting an error and then end-of-stream; a valid '
        'one "<Seat> <team> seated"; exactly four are seated, one per seat; every seated connection then reads the Teams '
        'line with N/S = North\'s and E/W = East\'s team, nothing in between, then Start of board, the board, End of '
        'session; the server keeps accepting after each rejection and returns. evaluations = admissions run. '
        'Non-trivial = >= 2 rejections of >= 2 kinds before the table is full under a non-sequential schedule; distinct '
        'by (attempt list, accept order).')
ASSUMPTIONS = ['simulation kernel fidelity (DESIGN.md 4.3/4.5)',
               'the protocol fixes no wording for rejections: any single line containing "error" counts, which reason is named is not checked']


def plan(tier):
    n, per = (16, 600) if tier == 'quick' else (16, 20000)
    return [{'kind': 'admission', 'n': per} for _ in range(n)]


@st.composite
def attempts_strategy(draw):
    team = st.one_of(GS.TEAM, GS.TEAM, GS.TEAM, st.just(''))         # the empty name is a well-formed (and accepted) team name
    teams = draw(st.lists(team, min_size=2, max_size=2, unique=True))
    if draw(st.integers(0, 3)) == 0:
        teams = [teams[0], teams[0]]        # both sides under one name (one program playing all four seats): perfectly admissible
    other = draw(team.filter(lambda t: t not in teams))
    valid = [{'seat': s, 'team': teams[s % 2], 'version': 18, 'kind': 'valid'} for s in draw(permutations([0, 1, 2, 3]))]
    n_inv = draw(st.integers(0, 6))
    inv = []
    for _ in range(n_inv):
        kind = draw(st.sampled_from(['wrong version', 'seat taken', 'team mismatch']))
        seat = draw(st.integers(0, 3))
        if kind == 'wrong version':
            ver = draw(st.integers(0, 999).filter(lambda v: v != 18))
            inv.append({'seat': seat, 'team': draw(st.sampled_from(teams + [other])), 'version': ver, 'kind': kind})
        elif kind == 'seat taken':
            inv.append({'seat': seat, 'team': draw(st.sampled_from([teams[seat % 2], other])), 'version': 18, 'kind': kind})
        else:
            # another team, the opponents' team, or the partner's own team in different letter case (team names are compared exactly)
            swapped = teams[seat % 2].swapcase()
            inv.append({'seat': seat, 'team': draw(st.sampled_from([other] + [t for t in (teams[1 - seat % 2], swapped, swapped) if t != teams[seat % 2]])), 'version': 18, 'kind': kind})
    # interleave: positions of invalid attempts among the valid ones, keeping dependencies satisfiable in list order:
    # a 'seat taken' / 'team mismatch' attempt is placed after the valid request it refers to; the last element is valid
    order = list(valid)
    for a in inv:
        if a['kind'] == 'wrong version':
            lo = 0
        elif a['kind'] == 'seat taken':
            lo = 1 + next(i for i, x in enumerate(order) if x['kind'] == 'valid' and x['seat'] == a['seat'])
        else:
            lo = 1 + next(i for i, x in enumerate(order) if x['kind'] == 'valid' and x['seat'] == (a['seat'] + 2) % 4)
        last_valid = max(i for i, x in enumerate(order) if x['kind'] == 'valid')
        if lo > last_valid:
            # it refers to the last valid request: make another valid request the last one is impossible -> turn it
            # into a wrong-version attempt (still an invalid attempt, counted under its real kind)
            a = dict(a, kind='wrong version', version=draw(st.integers(0, 999).filter(lambda v: v != 18)))
            lo = 0
        pos = draw(st.integers(lo, last_valid))
        order.insert(pos, a)
    for i, a in enumerate(order):
        a['id'] = i
        a['case'] = draw(st.sampled_from(['asis', 'asis', 'lower', 'upper', 'mask']))
        a['mask'] = draw(st.integers(0, 2 ** 40))
    mode = draw(st.sampled_from(['sequential', 'concurrent', 'concurrent']))
    for i, a in enumerate(order):
        if mode == 'sequential':
            a['after'] = [i - 1] if i else []
        else:
            if a['kind'] == 'seat taken':
                a['after'] = [x['id'] for x in order if x['kind'] == 'valid' and x['seat'] == a['seat']]
            elif a['kind'] == 'team mismatch':
                a['after'] = [x['id'] for x in order if x['kind'] == 'valid' and x['seat'] == (a['seat'] + 2) % 4]
            else:
                a['after'] = []
    if mode == 'concurrent':
        last_valid = max(i for i, x in enumerate(order) if x['kind'] == 'valid')
        order[last_valid]['after'] = [x['id'] for x in order if x['id'] != last_valid]
    board = {'id': draw(GS.ID_TEXT), 'dealer': draw(st.integers(0, 3)), 'vul': draw(st.sampled_from(['None', 'NS', 'EW', 'Both'])),
             'owner': draw(PL.DEAL), 'dda': None, 'calls': [A.PASS] * 4, 'cards': []}
    # requests may arrive in pieces (split deliveries: also between CR and LF, while the connection's thread is already reading)
    return {'attempts': order, 'teams': teams, 'mode': mode, 'board': board,
            'split': draw(st.one_of(st.none(), st.none(), st.lists(st.integers(1, 9), min_size=1, max_size=5)))}


def attempt_client(att, adm, net, log, verdicts, kernel):
    board = adm['board']
    kernel.point('await-prerequisites', None, pred=lambda: all(verdicts.get(p) is not None for p in att['after']))
    sock = O.SimSocket(net)
    sock.connect(ADDR)
    c = LineConn(sock, log)
    seat = att['seat']
    me = PR.FORMAL[seat]
    try:
        c.send(PR.fmt_case('Connecting ', att['case'], att['mask']) + f'"{att["team"]}"' +
               PR.fmt_case(f' as {me} using protocol version {att["version"]}', att['case'], att['mask']))
        line = c.recv()
        if PR.read_seated(line) is None:
            verdicts[att['id']] = 'rejected'
            try:
                extra = c.recv()
                log.append(('!', 'more than one line on a rejected connection'))
            except ClientFailure:
                pass
            return
        verdicts[att['id']] = 'seated'
        c.send(f'{me} ready for teams')
        c.recv()
        c.send(f'{me} ready to start')
        c.recv()                                    # Start of board
        c.send(f'{me} ready for deal')
        c.recv()
        c.send(f'{me} ready for cards')
        c.recv()
        for i in range(4):
            actor = (board['dealer'] + i) % 4
            if actor == seat:
                c.send(PR.call_text(seat, A.PASS))
            else:
                c.send(f"{me} ready for {PR.FORMAL[actor]}'s bid")
                c.recv()
        c.recv()                                    # End of session
    except ClientFailure:
        if verdicts.get(att['id']) is None:
            verdicts[att['id']] = 'no answer'
    finally:
        sock.close()


def run_admission(adm, schedule):
    from bridge_env.network_bridge.server import Server
    import os, tempfile
    from vf.common.core import VERIF_ROOT
    workdir = os.path.join(VERIF_ROOT, '.work', 'sessions')
    os.makedirs(workdir, exist_ok=True)
    fd, out_path = tempfile.mkstemp(suffix='.json', dir=workdir)
    os.close(fd)
    net = O.Network(split=adm.get('split'))
    kernel = Kernel(make_chooser(schedule), max_steps=SE.STEP_BOUND)
    if schedule.get('traced'):
        # a scheduling point at every source line of the admission code: a rejected connection's thread is then still
        # alive for a few steps after it has signalled its verdict, the seat table changes in steps of its own, ...
        kernel.trace_files, kernel.trace_funcs = ('/network_bridge/server.py',), ('_connect', 'run', '_handle_error', '_check_message')
    logs = {a['id']: [] for a in adm['attempts']}
    verdicts = {}
    excs = {}
    server_exc = [None]
    inst = Installed(kernel, net)
    inst.install()
    try:
        server = Server(ip_address=ADDR[0], port=ADDR[1], output_file_path=pathlib.Path(out_path),
                        board_settings=make_settings({'boards': [adm['board']]}))

        def server_main():
            try:
                with server:
                    server.run()
            except Kill:
                raise
            except BaseException as e:  # noqa
                server_exc[0] = e
        kernel.spawn(server_main, 'main', required=True)
        for a in adm['attempts']:
            def task(a=a):
                try:
                    kernel.point('await-listener', None,
                                 pred=lambda: net.listeners.get(ADDR) is not None and net.listeners[ADDR].listening)
                    attempt_client(a, adm, net, logs[a['id']], verdicts, kernel)
                except Kill:
                    raise
                except BaseException as e:  # noqa
                    excs[a['id']] = e
            kernel.spawn(task, f'attempt-{a["id"]}', required=True)
        outcome = kernel.run()
    finally:
        inst.uninstall()
        try:
            os.unlink(out_path)
        except OSError:
            pass
    return outcome, net, logs, verdicts, excs, server_exc[0]


def check_session(adm_or_scenario, schedule, stats=None, attempts=None, **kw):
    adm = attempts if attempts is not None else adm_or_scenario
    outcome, net, logs, verdicts, excs, server_exc = run_admission(adm, schedule)
    if outcome.status == 'step_bound':
        raise Inconclusive('step bound reached in admission')
    case = {'scenario': {'admission': True}, 'attempts': adm, 'schedule': schedule, 'trace': outcome.trace}
    atts = {a['id']: a for a in adm['attempts']}
    # accept order -> attempts (connection label = task name 'attempt-<id>')
    accepted = []
    for cid in net.accept_order:
        label = net.conns[cid].label or ''
        if label.startswith('attempt-'):
            accepted.append(int(label.split('-')[1]))
    # model: seat table in accept order
    table = {}
    expect = {}
    for i in accepted:
        a = atts[i]
        if a['version'] != 18:
            expect[i] = 'rejected'
        elif a['seat'] in table:
            expect[i] = 'rejected'
        elif (a['seat'] + 2) % 4 in table and table[(a['seat'] + 2) % 4] != a['team']:
            expect[i] = 'rejected'
        else:
            expect[i] = 'seated'
            table[a['seat']] = a['team']
    if outcome.status == 'deadlock':
        raise Violation('admission deadlocked: the server stopped accepting or a seated client was left waiting', case,
                        {'blocked': outcome.detail, 'accepted': accepted, 'verdicts': {str(k): v for k, v in verdicts.items()}})
    check(server_exc is None, 'table manager raised during admission', case, {'exception': repr(server_exc)[:300]})
    for i, e in excs.items():
        raise Violation('harness attempt client crashed', case, {'attempt': i, 'exception': repr(e)[:300]})
    rejections = []
    for i in accepted:
        a = atts[i]
        lines = [t for d, t in logs[i] if d == '<']
        got = verdicts.get(i)
        check(got == expect[i], 'admission verdict differs from the seat table in accept order', case,
              {'attempt': a, 'got': got, 'expected': expect[i], 'accepted_order': accepted, 'first_line': lines[:1]})
        if expect[i] == 'rejected':
            rejections.append(a['kind'])
            check(len(lines) == 2 and lines[1] is None and lines[0] is not None and 'error' in lines[0].lower(),
                  'a rejected request was not answered with exactly one error line and then closed', case,
                  {'attempt': a, 'received': lines[:4]})
        else:
            seat = a['seat']
            ev = [PR.classify(t) for t in lines if t is not None]
            exp_prefix = [('seated', (seat, a['team'])), ('teams', (None, None)), ('start', None)]
            check(len(ev) >= 3 and ev[0] == exp_prefix[0] and ev[1][0] == 'teams' and ev[2][0] == 'start',
                  'a seated client was not sent seated, Teams, Start of board in that order with nothing in between', case,
                  {'attempt': a, 'received': lines[:5]})
            check(ev[-1][0] == 'end', 'a seated client was not sent End of session after the board', case,
                  {'attempt': a, 'received': lines[-3:]})
            kinds = [k for k, _ in ev]
            check(kinds == ['seated', 'teams', 'start', 'board', 'cards', 'call', 'call', 'call', 'end'],
                  'a seated client\'s stream was disturbed', case, {'attempt': a, 'kinds': kinds})
    seated = [i for i in accepted if expect[i] == 'seated']
    check(sorted(atts[i]['seat'] for i in seated) == [0, 1, 2, 3], 'not exactly one client per seat was seated', case,
          {'seated': [atts[i] for i in seated]})
    check(table[0] == table[2] and table[1] == table[3], 'partners do not share a team name', case, {'table': {str(k): v for k, v in table.items()}})
    for i in seated:
        lines = [t for d, t in logs[i] if d == '<' and t is not None]
        teams = PR.read_teams(lines[1])
        check(teams == (table[0], table[1]), 'Teams line does not name N/S = North\'s and E/W = East\'s team', case,
              {'line': lines[1], 'expected': [table[0], table[1]]})
    not_accepted = [i for i in atts if i not in accepted]
    check(not not_accepted, 'the server stopped accepting before every request was answered', case, {'unanswered': not_accepted})
    if stats is not None:
        stats.evaluated()
        stats.cls(f'mode {adm["mode"]}')
        if adm['teams'][0] == adm['teams'][1]:
            stats.cls('both sides under the same team name')
        if adm.get('split'):
            stats.cls('requests delivered in pieces (split deliveries)')
        for k in rejections:
            stats.cls(f'rejected: {k}')
        stats.cls(f'rejections {min(len(rejections), 4)}{"+" if len(rejections) >= 4 else ""}')
        if any(a['case'] != 'asis' for a in adm['attempts']):
            stats.cls('seat name in non-default letter case')
        if schedule.get('traced'):
            stats.cls('admissions with line-level scheduling points inside the admission code')
        nonseq = schedule.get('kind') != 'sequential' or schedule.get('stalls')
        if len(rejections) >= 2 and len(set(rejections)) >= 2 and nonseq:
            stats.nt([adm['attempts'], accepted],
                     {'attempts': [{k: a[k] for k in ('seat', 'team', 'version', 'kind', 'after')} for a in adm['attempts']],
                      'accept_order': accepted, 'mode': adm['mode']} if len(adm['attempts']) <= 6 else None)


def run_shard(spec, seed, tier, stats):
    v = run_hypothesis(lambda adm, schedule: check_session(adm, schedule, stats),
                       {'adm': attempts_strategy(), 'schedule': st.tuples(SE.SCHEDULE(), st.integers(0, 2)).map(lambda t: dict(t[0], traced=True) if t[1] == 0 else t[0])},
                       seed, spec['n'], tier == 'thorough')
    return [v] if v else []


def replay(rec):
    c = rec['case']
    for sched in ([{'kind': 'replay', 'trace': c['trace'], 'traced': bool(c['schedule'].get('traced'))}] if c.get('trace') else []) + [c['schedule']]:
        try:
            check_session(c['attempts'], sched)
        except Violation as v:
            return v
    return None
