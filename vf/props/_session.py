"""Oracles over simulated sessions (C08, C09, C10, C11b, C13, C19b) - expectations are computed from the
scenario's script with the independent models only."""
from __future__ import annotations

import json

from hypothesis import strategies as st
from vf.gen.perm import permutations

from vf.common.core import Violation, Inconclusive, check, h64, run_hypothesis
from vf.common import be
from vf.model import auction as A, play as P, protocol as PR, score as SC
from vf.gen import sessions as GS
from vf.props import _play as PL
from vf.sim.session import run_session

STEP_BOUND = 400000
GB_ALPHA = 'abcdefghijklmnopqrstuvwxyzABCDEFGHIJKLMNOPQRSTUVWXYZ0123456789 .,-_/()+#:'


# ---------------------------------------------------------------------------------------
# expectations from the script

class AnyDeal:
    """The deal of a board that was left to the table manager: any four disjoint 13-card hands covering the pack."""

    def __eq__(self, other):
        try:
            hs = [other[s] for s in A.SEATS]
            return all(len(h) == 13 for h in hs) and sorted(c for h in hs for c in h) == sorted(PL.fmt_cards(range(52)))
        except Exception:  # noqa
            return False

    def __ne__(self, other):
        return not self == other

    def __repr__(self):
        return '<any complete deal>'


class Any13:
    """The hand of a seat on a board dealt by the table manager: any 13 cards (compared with the log afterwards)."""

    def __eq__(self, other):
        return isinstance(other, (set, frozenset)) and len(other) == 13

    def __ne__(self, other):
        return not self == other

    def __repr__(self):
        return '<any 13 cards>'

    def __iter__(self):
        return iter(())


def board_expect(b):
    """Model result of a scripted board."""
    res = A.result(b['dealer'], b['calls'])
    out = {'board_id': b['id'], 'dealer': A.SEATS[b['dealer']], 'vulnerability': b['vul'],
           'deal': AnyDeal() if b.get('server_deals') else {A.SEATS[s]: PL.fmt_cards(PL.hands_of(b['owner'])[s]) for s in range(4)},
           'bid_history': [A.call_name(c) for c in b['calls']]}
    if res is None:
        out.update(contract='Passed_out', declarer=None, play_history=None, taken_trick=None, scores={'NS': 0, 'EW': 0})
        return out
    bid, dbl, decl = res
    m = P.Play(decl, bid % 5)
    for c in b['cards']:
        m.play(c)
    tricks = m.tricks[decl % 2]
    sc = SC.score(bid // 5 + 1, bid % 5, dbl, SC.side_vulnerable(b['vul'], decl), tricks)
    scores = {'NS': sc, 'EW': -sc} if decl % 2 == 0 else {'NS': -sc, 'EW': sc}
    out.update(contract=A.call_name(bid) + ('', 'X', 'XX')[dbl], declarer=A.SEATS[decl],
               play_history=[{'leader': A.SEATS[l], 'cards': PL.fmt_cards(cs)} for l, cs in m.history],
               taken_trick=tricks, scores=scores)
    return out


LOG_FIELDS = ['board_id', 'dealer', 'vulnerability', 'deal', 'bid_history', 'contract', 'declarer', 'play_history',
              'taken_trick', 'scores']


def seat_events(scenario, seat):
    """The exact sequence of (kind, value) events a seat is entitled to on its connection."""
    ev = [('seated', (seat, scenario['teams'][seat % 2])), ('teams', (scenario['teams'][0], scenario['teams'][1]))]
    for bi, b in enumerate(scenario['boards']):
        ev.append(('start', None))
        ev.append(('board', (bi + 1, b['dealer'], b['vul'])))
        ev.append(('cards', (seat, Any13() if b.get('server_deals') else set(PL.hands_of(b['owner'])[seat]))))
        for i, call in enumerate(b['calls']):
            actor = (b['dealer'] + i) % 4
            if actor != seat:
                ev.append(('call', (actor, call)))
        res = A.result(b['dealer'], b['calls'])
        if res is not None:
            bid, dbl, decl = res
            dummy = (decl + 2) % 4
            m = P.Play(decl, bid % 5)
            hands = PL.hands_of(b['owner'])
            for j, card in enumerate(b['cards']):
                actor = m.turn
                first = len(m.trick) == 0
                mine = (actor == seat and seat != dummy) or (actor == dummy and seat == decl)
                if mine:
                    if first:
                        ev.append(('lead', 'Dummy' if actor == dummy else seat))
                else:
                    ev.append(('card', (actor, card)))
                m.play(card)
                if j == 0 and seat != dummy:
                    ev.append(('cards', ('Dummy', set(hands[dummy]))))
    ev.append(('end', None))
    return ev


# ---------------------------------------------------------------------------------------
# running

def run_case(scenario, schedule, **kw):
    r = run_session(scenario, schedule, max_steps=STEP_BOUND, **kw)
    if r.outcome.status == 'step_bound':
        raise Inconclusive(f'step bound {STEP_BOUND} reached (scenario {h64(scenario):x})')
    return r


def second_table_problems(scenario, r):
    """A second table running concurrently in the same process (scenario['table2']) is a session of its own: it must
    complete, log its own boards and tell each of its seats exactly what that seat is entitled to."""
    t2 = getattr(r, 'table2', None)
    if t2 is None:
        return []
    sc2 = scenario['table2']
    probs = completion_problems(sc2, t2) or (log_problems(sc2, t2) + stream_problems(sc2, t2))
    return [('second table in the same process: ' + c, d) for c, d in probs]


def case_of(scenario, schedule, r=None, extra=None):
    c = {'scenario': scenario, 'schedule': schedule}
    if r is not None:
        c['trace'] = r.outcome.trace
    if extra:
        c.update(extra)
    return c


def brief(scenario):
    return {'boards': [{'id': b['id'], 'dealer': A.SEATS[b['dealer']], 'vul': b['vul'], 'calls': [A.call_name(c) for c in b['calls']],
                        'first_cards': PL.fmt_cards(b['cards'][:4])} for b in scenario['boards']],
            'teams': scenario['teams'], 'arrival': scenario['arrival'], 'fmt': {k: v for k, v in scenario.get('fmt', {}).items() if k != 'mask'}}


def completion_problems(scenario, r):
    """C09 oracle: list of (clause, detail)."""
    out = []
    o = r.outcome
    if o.status == 'deadlock':
        out.append(('session deadlocked: no thread can take a step', {'blocked': o.detail, 'steps': o.steps}))
        return out
    if r.server_exc is not None:
        out.append(('table manager raised with four conforming clients', {'exception': repr(r.server_exc)[:300], 'tb': (r.server_tb or '')[-600:]}))
    for s, e in sorted(r.client_exc.items()):
        out.append(('a conforming client could not finish the session', {'seat': A.SEATS[s], 'exception': repr(e)[:300]}))
    for s in range(4):
        if s not in r.client_exc and not r.client_state[s].get('ended'):
            out.append(('a client was not sent "End of session"', {'seat': A.SEATS[s]}))
    if o.detail:
        out.append(('a server thread never finished', {'stuck': o.detail}))
    for name, e in o.exceptions.items():
        if name.startswith('seat-thread'):
            out.append(('a seat thread died with an exception', {'thread': name, 'exception': repr(e)[:300]}))
    if not out:
        try:
            doc = json.loads(r.output_text)
            if len(doc['logs']) != len(scenario['boards']):
                out.append(('closed log does not hold every board', {'boards_in_log': len(doc['logs'])}))
        except Exception as e:  # noqa
            out.append(('log file is not a complete JSON document', {'error': repr(e)[:200], 'tail': (r.output_text or '')[-80:]}))
    return out


def log_problems(scenario, r):
    """C08 oracle."""
    out = []
    try:
        doc = json.loads(r.output_text)
        logs = doc['logs']
    except Exception as e:  # noqa
        return [('log file is not a complete JSON document', {'error': repr(e)[:200]})]
    exp = [board_expect(b) for b in scenario['boards']]
    if len(logs) != len(exp):
        return [('log does not list the configured boards', {'in_log': len(logs), 'configured': len(exp)})]
    for i, (g, e) in enumerate(zip(logs, exp)):
        for f in LOG_FIELDS:
            if g.get(f, '<missing>') != e[f]:
                out.append((f'log field differs from what was played: {f}', {'board': i, 'logged': g.get(f, '<missing>'), 'expected': e[f]}))
                break
        sc = g.get('scores', {})
        if isinstance(sc, dict) and sc.get('NS', 0) != -sc.get('EW', 0):
            out.append(('the two sides\' scores are not negatives of each other', {'board': i, 'scores': sc}))
    return out


def intruder_problems(scenario, r):
    """Every inadmissible connection attempt made during admission is answered with one error line and closed."""
    out = []
    for it, log in zip(scenario.get('intruders') or [], getattr(r, 'intruder_logs', [])):
        lines = [t for d, t in log if d == '<']
        if not (len(lines) == 2 and lines[1] is None and lines[0] is not None and 'error' in lines[0].lower()):
            out.append(('an inadmissible connection attempt during admission was not answered with exactly one error line and then closed',
                        {'attempt': it, 'received': lines[:4]}))
    return out


def transcript_problems(scenario, r):
    """C10 oracle: the complete server->client stream of each connection, as events, plus the global-clock rule."""
    out = intruder_problems(scenario, r) + stream_problems(scenario, r) + server_dealt_problems(scenario, r)
    out.extend(dummy_timing_problems(scenario, r))
    return out


def stream_problems(scenario, r):
    out = []
    for s in range(4):
        lines = [t for d, t in r.client_logs[s] if d == '<' and t is not None]
        got = [PR.classify(t) for t in lines]
        exp = seat_events(scenario, s)
        n = min(len(got), len(exp))
        for i in range(n):
            if got[i] != exp[i]:
                out.append((f'a seat was sent something it is not entitled to (or in the wrong order): expected {exp[i][0]}',
                            {'seat': A.SEATS[s], 'index': i, 'line': lines[i], 'got': _ev(got[i]), 'expected': _ev(exp[i]),
                             'previous_line': lines[i - 1] if i else None}))
                break
        else:
            if len(got) != len(exp):
                extra = lines[n:n + 3]
                out.append(('a seat was sent more or fewer messages than the protocol entitles it to',
                            {'seat': A.SEATS[s], 'received': len(got), 'expected': len(exp), 'extra': extra,
                             'missing': [_ev(e) for e in exp[n:n + 3]]}))
    return out


def server_dealt_problems(scenario, r):
    """Boards dealt by the table manager: what each seat was sent as its hand must be that seat's hand in the log."""
    out = []
    if not any(b.get('server_deals') for b in scenario['boards']):
        return out
    try:
        logs = json.loads(r.output_text)['logs']
    except Exception:  # noqa
        return out
    for s in range(4):
        hands = [v for k, v in (PR.classify(t) for d, t in r.client_logs[s] if d == '<' and t is not None) if k == 'cards' and v[0] == s]
        for bi, b in enumerate(scenario['boards']):
            if b.get('server_deals') and bi < len(hands) and bi < len(logs):
                if sorted(PL.fmt_cards(hands[bi][1])) != sorted(logs[bi]['deal'][A.SEATS[s]]):
                    out.append(('on a board dealt by the table manager a seat was sent other cards than the log records for it',
                                {'board': bi, 'seat': A.SEATS[s], 'sent': PL.fmt_cards(sorted(hands[bi][1])), 'logged': logs[bi]['deal'][A.SEATS[s]]}))
    return out


def real_session_problems(scenario, sim, timeout_s=90.0):
    """The same scenario on real threads and real loopback sockets (vf/sim/realrun.py): it must complete, satisfy the log
    and transcript oracles, and write the byte-identical file / the same four transcripts as the simulated run."""
    from vf.sim.realrun import run_real_session
    try:
        rr = run_real_session(scenario, timeout_s)
    except Inconclusive:
        return None
    if rr.timed_out:
        # wall-clock safety net: says nothing about the property (a loaded machine, a port taken by somebody else) -
        # the case is skipped and counted, never reported
        return None
    out = []
    if rr.server_exc is not None:
        out.append(('real threads: table manager raised with four conforming clients', {'exception': repr(rr.server_exc)[:300], 'tb': (rr.server_tb or '')[-500:]}))
    for s_, e in sorted(rr.client_exc.items()):
        out.append(('real threads: a conforming client could not finish the session', {'seat': A.SEATS[s_], 'exception': repr(e)[:300]}))
    if out:
        return out
    out.extend(('real threads: ' + c, d) for c, d in log_problems(scenario, rr))
    out.extend(('real threads: ' + c, d) for c, d in stream_problems(scenario, rr))
    if not out and sim is not None:
        if rr.output_text != sim.output_text:
            out.append(('the log written on real threads differs from the log of the simulated run of the same session',
                        {'real': rr.output_text[:300], 'simulated': sim.output_text[:300]}))
        for s_ in range(4):
            if rr.client_logs[s_] != sim.client_logs[s_]:
                out.append(('a connection transcript on real sockets differs from the simulated run of the same session', {'seat': A.SEATS[s_]}))
                break
    return out


def _ev(e):
    k, v = e
    if k == 'cards':
        return [k, v[0] if v[0] == 'Dummy' else A.SEATS[v[0]], PL.fmt_cards(sorted(v[1]))]
    if k == 'call':
        return [k, A.SEATS[v[0]], A.call_name(v[1])]
    if k == 'card':
        return [k, A.SEATS[v[0]], P.card_name(v[1])]
    return [k, v if not isinstance(v, tuple) else list(v)]


def dummy_timing_problems(scenario, r):
    """Dummy's cards may be put on any connection only after the opening lead was sent by the leader
    (global step clock of the simulated network)."""
    out = []
    conn_seat = {}
    for cid, conn in enumerate(r.net.conns):
        if conn.label and conn.label.startswith('client-'):
            conn_seat[cid] = A.SEATS.index(conn.label[-1])
    # walk the raw sends in global order, tracking per board the step of the opening lead
    board_idx = {s: -1 for s in range(4)}
    lead_step = {}
    for step, cid, direction, data in r.net.sends:
        seat = conn_seat.get(cid)
        if seat is None:
            continue
        text = data.decode('utf-8', 'replace').rstrip('\r\n')
        if direction == 's2c' and PR.is_start_of_board(text):
            board_idx[seat] += 1
        elif direction == 'c2s':
            v = PR.read_card(text)
            if v is not None and board_idx[seat] not in lead_step:
                lead_step[board_idx[seat]] = step
        elif direction == 's2c':
            v = PR.read_cards(text)
            if v is not None and v[0] == 'Dummy':
                b = board_idx[seat]
                if b not in lead_step or lead_step[b] >= step:
                    out.append(("dummy's cards were sent before the opening lead was played", {'seat': A.SEATS[seat], 'board': b, 'step': step}))
    return out


# ---------------------------------------------------------------------------------------
# statistics

def scenario_features(scenario, schedule):
    f = set()
    for b in scenario['boards']:
        res = A.result(b['dealer'], b['calls'])
        if res is None:
            f.add('passed-out board')
            continue
        bid, dbl, decl = res
        f.add('played board')
        if decl % 2 == 1:
            f.add('declarer EW')
        if dbl:
            f.add('doubled/redoubled contract')
        m = P.Play(decl, bid % 5)
        for c in b['cards']:
            if len(m.trick) == 0 and m.turn == m.dummy:
                f.add('dummy leads a trick')
            m.play(c)
    if len(scenario['boards']) > 1:
        f.add('>=2 boards')
    if schedule.get('kind') != 'sequential' or schedule.get('stalls') or schedule.get('starve'):
        f.add('non-sequential schedule')
    if schedule.get('starve'):
        f.add('schedule that starves one task')
    if schedule.get('stalls'):
        f.add('schedule with stalls')
    if scenario.get('fmt', {}).get('alerts'):
        f.add('alerts')
    if scenario.get('fmt', {}).get('case', 'asis') != 'asis':
        f.add('non-default letter case')
    if scenario.get('split'):
        f.add('split deliveries')
    if scenario.get('intruders'):
        f.add('admission with connection attempts that are turned away')
    if scenario.get('linger'):
        f.add('clients that keep the connection open after End of session')
    return f


SCENARIO = GS.scenario
SCHEDULE = GS.schedule


def first_problem(problems, scenario, schedule, r):
    if problems:
        clause, detail = problems[0]
        raise Violation(clause, case_of(scenario, schedule, r), detail)


def reduce_violation(check_session, v, budget_s=25.0):
    """Purpose-built reducer for session cases (Hypothesis' own shrinker gets only seconds in the quick tier and a
    session costs 0.05-0.3 s): greedily tries simpler variants of the failing case - sequential schedule, fewer boards,
    default formatting / arrival / team names / ids, no split deliveries - and keeps a variant when the check still fails
    with the SAME clause.  Bounded by wall clock; the clock decides only how small the replay gets."""
    import copy
    import time
    t0 = time.time()
    if not isinstance(v.case, dict) or 'scenario' not in v.case:
        return v
    best = v
    extra_keys = ('fault', 'schedule2', 'attempts', 'policy', 'second')

    def attempt(scenario, schedule, extra):
        nonlocal best
        if time.time() - t0 > budget_s:
            return False
        try:
            check_session(scenario, schedule, None, **extra)
        except Violation as w:
            if w.clause == v.clause and isinstance(w.case, dict) and 'scenario' in w.case:
                best = w
                return True
        except Exception:  # noqa  (Inconclusive etc.: not a usable variant)
            return False
        return False

    def cur():
        c = best.case
        return copy.deepcopy(c['scenario']), copy.deepcopy(c['schedule']), {k: copy.deepcopy(c[k]) for k in extra_keys if k in c and c[k] is not None}

    sc, sched, extra = cur()
    if sched.get('kind') != 'sequential' or sched.get('stalls'):
        if not attempt(sc, {'kind': 'sequential'}, dict(extra, **({'schedule2': {'kind': 'sequential'}} if 'schedule2' in extra else {}))):
            if sched.get('stalls'):
                attempt(sc, {k: x for k, x in sched.items() if k != 'stalls'}, extra)
    # fewer boards (a fault's board index moves with the boards in front of it)
    changed = True
    while changed and time.time() - t0 <= budget_s:
        changed = False
        sc, sched, extra = cur()
        n = len(sc['boards'])
        fb = extra.get('fault', {}).get('board') if 'fault' in extra else None
        for i in list(range(n - 1, -1, -1)):
            if n <= 1 or i == fb:
                continue
            sc2 = dict(sc, boards=sc['boards'][:i] + sc['boards'][i + 1:])
            ex2 = dict(extra)
            if fb is not None:
                ex2['fault'] = dict(extra['fault'], board=fb - 1 if i < fb else fb)
            if 'policy' not in extra and sc2.get('fmt', {}).get('alerts'):
                sc2['fmt'] = dict(sc2['fmt'], alerts={})
            if attempt(sc2, sched, ex2):
                changed = True
                break
    for key, val in (('intruders', []), ('linger', []), ('fmt', {}), ('split', None), ('arrival', [0, 1, 2, 3]), ('teams', ['a', 'b'])):
        sc, sched, extra = cur()
        if key == 'arrival' and sc.get('intruders'):
            continue            # the intruders' prerequisites refer to the arrival order
        if sc.get(key) != val and not (key == 'fmt' and 'policy' in extra):
            attempt(dict(sc, **{key: val}), sched, extra)
    sc, sched, extra = cur()
    simple = dict(sc, boards=[dict(b, id=str(i + 1), dda=None) for i, b in enumerate(sc['boards'])])
    if simple != sc:
        attempt(simple, sched, extra)
    return best


def replay(pid, rec):
    """Re-executes a session case: first along the recorded explicit trace, then (if that passes) with the
    generating schedule."""
    c = rec['case']
    scenario = c['scenario']
    mod = __import__(f'vf.props.{pid.lower()}', fromlist=['x'])
    for sched in ([{'kind': 'replay', 'trace': c['trace']}] if c.get('trace') else []) + [c['schedule']]:
        try:
            mod.check_session(scenario, sched, None, **{k: c[k] for k in ('fault', 'schedule2', 'attempts', 'policy', 'real_sockets', 'real_process', 'second') if k in c})
        except Violation as v:
            return v
    return None


# ---------------------------------------------------------------------------------------
# C11(b): bundled clients with generated policies

def policy_call(legal, n_calls, ints):
    """A bidding policy: a deterministic function of the client's own view (legal set, number of calls so far)
    and of the drawn integers."""
    legal = sorted(legal)
    k = ints[n_calls % len(ints)]
    if n_calls >= 24 or k % 100 < 40:
        return A.PASS
    if k % 100 < 55:
        for c in (A.X, A.XX):
            if c in legal:
                return c
    bids = [c for c in legal if c < 35]
    if not bids:
        return A.PASS
    return bids[min((k // 100) % 4, len(bids) - 1)]


def bundled_clients(scenario, policy, records, addr=None):
    from bridge_env.network_bridge import client as CM
    from bridge_env.network_bridge.bidding_system import BiddingSystem
    from bridge_env.network_bridge.playing_system import PlayingSystem
    from vf.sim.session import ADDR
    addr = addr or ADDR

    class Bids(BiddingSystem):
        def __init__(self, seat):
            self.seat = seat

        def bid(self, hand, env):
            legal = {i for i in range(38) if env.available_bid[i] == 1}
            return be.BID[policy_call(legal, len(env.bid_history), policy['bids'][self.seat])]

    class Plays(PlayingSystem):
        def __init__(self, seat):
            self.seat = seat

        def play(self, hand, env):
            k = policy['plays'][self.seat][len(env.used_cards) % len(policy['plays'][self.seat])]
            follow = sorted(env.current_available_cards(hand))
            pool = follow if k % 8 else sorted(hand)        # 1 in 8: any card of the hand (a revoke if possible)
            return pool[(k // 8) % len(pool)]

    class RecClient(CM.Client):
        def bidding_phase(self):
            c = super().bidding_phase()
            records[self.seat_idx].append({'contract': c, 'env': None})
            return c

    def make(seat):
        def fn():
            cl = RecClient(player=be.SEAT[seat], team_name=scenario['teams'][seat % 2], bidding_system=Bids(seat),
                           playing_system=Plays(seat), ip_address=addr[0], port=addr[1])
            cl.seat_idx = seat
            with cl:
                cl.run()
            records[seat].append('returned')
        return fn
    return [make(s) for s in range(4)]


def run_bundled(scenario, schedule, policy):
    """Runs a session with four bundled Clients; returns (result, records)."""
    from bridge_env.network_bridge import client as CM
    records = {s: [] for s in range(4)}
    real = CM.ObservedPlayingPhase

    def recording_phase(contract, player, hand):
        env = real(contract=contract, player=player, hand=hand)
        rec = records[be.SEAT_IDX[player]]
        if rec and isinstance(rec[-1], dict):
            rec[-1]['env'] = env
        return env
    CM.ObservedPlayingPhase = recording_phase
    try:
        r = run_case(scenario, schedule, clients=bundled_clients(scenario, policy, records))
    finally:
        CM.ObservedPlayingPhase = real
    return r, records


def bundled_problems(scenario, r, records):
    out = []
    if r.outcome.status == 'deadlock':
        return [('session with four bundled clients deadlocked', {'blocked': r.outcome.detail})]
    if r.server_exc is not None:
        # the server did not complete: nothing is demanded of the clients, but a legal policy must not make it fail
        return [('table manager raised in a session played by the bundled client', {'exception': repr(r.server_exc)[:300], 'tb': (r.server_tb or '')[-500:]})]
    for s, e in sorted(r.client_exc.items()):
        out.append(('the bundled client failed in a session the server completed', {'seat': A.SEATS[s], 'exception': repr(e)[:300]}))
    if out:
        return out
    try:
        logs = json.loads(r.output_text)['logs']
    except Exception as e:  # noqa
        return [('log file is not a complete JSON document', {'error': repr(e)[:200]})]
    for s in range(4):
        rec = records[s]
        if not rec or rec[-1] != 'returned':
            out.append(('the bundled client did not return from a session the server completed', {'seat': A.SEATS[s]}))
            continue
        boards = [x for x in rec if isinstance(x, dict)]
        if len(boards) != len(logs):
            out.append(('the bundled client followed a different number of boards than the server logged', {'seat': A.SEATS[s], 'client': len(boards), 'server': len(logs)}))
            continue
        for i, (b, lg) in enumerate(zip(boards, logs)):
            c = b['contract']
            ctext = 'Passed_out' if c.is_passed_out() else A.call_name(be.BID_IDX[c.final_bid]) + ('', 'X', 'XX')[be.dbl_status(c)]
            cdecl = None if c.declarer is None else A.SEATS[be.SEAT_IDX[c.declarer]]
            if ctext != lg['contract'] or cdecl != lg['declarer']:
                out.append(("client's contract/declarer differs from the table manager's", {'seat': A.SEATS[s], 'board': i, 'client': [ctext, cdecl], 'server': [lg['contract'], lg['declarer']]}))
                continue
            if c.vul is not be.VUL[lg['vulnerability']]:
                out.append(("client's vulnerability differs from the table manager's", {'seat': A.SEATS[s], 'board': i}))
            if lg['play_history'] is None:
                continue
            env = b['env']
            if env is None:
                out.append(('client never followed the play of a played board', {'seat': A.SEATS[s], 'board': i}))
                continue
            hist = [{'leader': A.SEATS[be.SEAT_IDX[t.leader]], 'cards': [P.card_name(be.CARD_IDX[x]) for x in t.cards]} for t in env.playing_history.history]
            if hist != lg['play_history']:
                out.append(("client's trick history differs from the table manager's", {'seat': A.SEATS[s], 'board': i, 'client': hist[:2], 'server': lg['play_history'][:2]}))
            tr = env.taken_tricks[c.declarer.pair]
            if tr != lg['taken_trick'] or not env.has_done() or env.trick_num != 14:
                out.append(("client's trick count / end of play differs from the table manager's", {'seat': A.SEATS[s], 'board': i, 'client': tr, 'server': lg['taken_trick'], 'trick_num': env.trick_num}))
    return out


def run_bundled_real(scenario, policy, timeout_s=90.0):
    """The same session with four bundled Clients on REAL threads and REAL loopback sockets (vf/sim/realrun.py); returns
    (real result, records) or None when the wall-clock safety net stopped it (skipped, never judged)."""
    import types
    from bridge_env.network_bridge import client as CM, server as SV
    from vf.sim.realrun import run_real_session
    records = {s: [] for s in range(4)}
    real = CM.ObservedPlayingPhase

    def recording_phase(contract, player, hand):
        env = real(contract=contract, player=player, hand=hand)
        rec = records[be.SEAT_IDX[player]]
        if rec and isinstance(rec[-1], dict):
            rec[-1]['env'] = env
        return env
    import logging
    log_disabled = logging.root.manager.disable
    logging.disable(logging.CRITICAL)
    CM.ObservedPlayingPhase = recording_phase
    CM.print = SV.print = lambda *a, **kw: None
    try:
        rr = run_real_session(scenario, timeout_s, client_fns=lambda ip, port: bundled_clients(scenario, policy, records, (ip, port)))
    except Inconclusive:
        return None
    finally:
        CM.ObservedPlayingPhase = real
        for m in (CM, SV):
            try:
                del m.print
            except AttributeError:
                pass
        logging.disable(log_disabled)
    if rr.timed_out:
        return None
    rr.outcome = types.SimpleNamespace(status='completed', detail=None)
    return rr, records


def check_bundled_real(scenario, policy, stats=None):
    """C11(b) on the real thing: the simulated run (sequential schedule) and the run on real sockets of the same session
    - same boards, same policies - must both satisfy the replica oracle and must write the byte-identical log."""
    sched = {'kind': 'sequential'}
    r, records = run_bundled(scenario, sched, policy)
    probs = bundled_problems(scenario, r, records)
    if probs:
        raise Violation(probs[0][0], case_of(scenario, sched, r, {'policy': policy}), probs[0][1])
    got = run_bundled_real(scenario, policy)
    if got is None:
        if stats is not None:
            stats.excluded['real-socket run stopped by the wall-clock safety net (skipped, not judged)'] += 1
        return
    rr, rrecords = got
    probs = [('real sockets: ' + c, d) for c, d in bundled_problems(scenario, rr, rrecords)]
    if not probs and rr.output_text != r.output_text:
        probs = [('bundled clients with the same policies wrote a different log on real sockets than in the simulated run',
                  {'real': (rr.output_text or '')[:300], 'simulated': r.output_text[:300]})]
    if probs:
        raise Violation(probs[0][0], case_of(scenario, sched, r, {'policy': policy, 'real_sockets': True}), probs[0][1])
    if stats is not None:
        stats.evaluated()
        stats.cls('bundled sessions repeated on real threads + loopback sockets (replica oracle, byte-identical log)')
        if any(lg['play_history'] is not None for lg in json.loads(rr.output_text)['logs']):
            stats.cls('bundled real-socket sessions with a played board')


POLICY = st.fixed_dictionaries({'bids': st.lists(st.lists(st.integers(0, 999), min_size=3, max_size=8), min_size=4, max_size=4),
                                'plays': st.lists(st.lists(st.integers(0, 999), min_size=5, max_size=13), min_size=4, max_size=4)})


@st.composite
def bundled_scenario(draw, max_boards=3):
    n = draw(st.integers(1, max_boards))
    boards = [{'id': draw(GS.ID_TEXT), 'dealer': draw(st.integers(0, 3)), 'vul': draw(st.sampled_from(['None', 'NS', 'EW', 'Both'])),
               'owner': draw(PL.DEAL), 'dda': None, 'calls': [], 'cards': []} for _ in range(n)]
    return {'boards': boards, 'teams': [draw(GS.TEAM), draw(GS.TEAM)], 'arrival': draw(permutations([0, 1, 2, 3])), 'fmt': {},
            'split': draw(st.one_of(st.none(), st.none(), st.lists(st.integers(1, 9), min_size=1, max_size=5)))}


def plan_c11(tier):
    n, per = (8, 160) if tier == 'quick' else (12, 2500)
    nr, perr = (4, 3) if tier == 'quick' else (12, 40)
    return [{'kind': 'bundled', 'n': per, 'max_boards': 3 if tier == 'quick' else 5} for _ in range(n)] + \
           [{'kind': 'bundled-real', 'n': perr, 'max_boards': 2} for _ in range(nr)]


def check_bundled(scenario, schedule, policy, stats=None, completion_only=False):
    r, records = run_bundled(scenario, schedule, policy)
    probs = bundled_problems(scenario, r, records)
    if probs:
        clause, detail = probs[0]
        raise Violation(clause, case_of(scenario, schedule, r, {'policy': policy}), detail)
    if stats is not None:
        stats.evaluated()
        logs = json.loads(r.output_text)['logs']
        played = [lg for lg in logs if lg['play_history'] is not None]
        stats.cls('bundled sessions')
        if played:
            stats.cls('bundled sessions with a played board')
            if any(lg['contract'].endswith('X') for lg in played):
                stats.cls('bundled: doubled contract')
            nonseq = schedule.get('kind') != 'sequential' or schedule.get('stalls')
            if nonseq:
                stats.nt(['b', scenario, policy], {'contracts': [[lg['contract'], lg['declarer'], lg['taken_trick']] for lg in logs],
                                                    'schedule_kind': schedule['kind']} if len(logs) <= 2 else None)
        else:
            stats.cls('bundled sessions all passed out')
    return r


def run_shard_c11(spec, seed, tier, stats):
    if spec['kind'] == 'bundled-real':
        v = run_hypothesis(lambda scenario, policy: check_bundled_real(scenario, policy, stats),
                           {'scenario': bundled_scenario(spec['max_boards']), 'policy': POLICY}, seed, spec['n'], False)
        return [v] if v else []
    v = run_hypothesis(lambda scenario, schedule, policy: check_bundled(scenario, schedule, policy, stats),
                       {'scenario': bundled_scenario(spec['max_boards']), 'schedule': SCHEDULE(), 'policy': POLICY},
                       seed, spec['n'], tier == 'thorough')
    return [v] if v else []


# ---------------------------------------------------------------------------------------
# C19(b): board headers and Teams lines as built by the running server

@st.composite
def header_scenario(draw):
    n = draw(st.integers(1, 12))
    boards = [{'id': str(i + 1), 'dealer': draw(st.integers(0, 3)), 'vul': draw(st.sampled_from(['None', 'NS', 'EW', 'Both'])),
               'owner': [c // 13 for c in range(52)], 'dda': None, 'calls': [A.PASS] * 4, 'cards': []} for i in range(n)]
    long_team = st.text(alphabet=GB_ALPHA, min_size=300, max_size=700)          # names that make the Teams line long
    team = st.one_of(GS.TEAM, GS.TEAM, GS.TEAM, long_team)
    return {'boards': boards, 'teams': [draw(team), draw(team)], 'arrival': draw(permutations([0, 1, 2, 3])), 'fmt': {}}


def plan_c19(tier):
    n, per = (4, 150) if tier == 'quick' else (6, 3000)
    m, perm = (6, 120) if tier == 'quick' else (8, 2500)
    h, perh = (4, 100) if tier == 'quick' else (6, 3000)
    return [{'kind': 'server_built', 'n': per} for _ in range(n)] + [{'kind': 'relayed', 'n': perm} for _ in range(m)] + \
        [{'kind': 'handshake', 'n': perh} for _ in range(h)]


def check_server_built(scenario, schedule, stats=None):
    from bridge_env.network_bridge.client import Client
    r = run_case(scenario, schedule)
    case = case_of(scenario, schedule, r)
    if r.outcome.status != 'completed' or r.server_exc is not None or r.client_exc:
        first_problem(completion_problems(scenario, r), scenario, schedule, r)
    for s in range(4):
        lines = [t for d, t in r.client_logs[s] if d == '<' and t is not None]
        teams_lines = [t for t in lines if t.lower().startswith('teams')]
        check(len(teams_lines) == 1, 'no Teams line was sent', case, {'seat': A.SEATS[s]})
        try:
            got = Client.parse_team_names(teams_lines[0])
        except Exception as e:  # noqa
            raise Violation("client cannot parse the server's Teams line", case, {'line': teams_lines[0], 'exception': repr(e)[:200]})
        check(tuple(got) == tuple(scenario['teams']), "client understands the server's Teams line as different team names", case,
              {'line': teams_lines[0], 'got': list(got), 'expected': scenario['teams']})
        heads = [t for t in lines if t.lower().startswith('board number')]
        check(len(heads) == len(scenario['boards']), 'a board header is missing', case, {'seat': A.SEATS[s], 'headers': len(heads)})
        for i, (t, b) in enumerate(zip(heads, scenario['boards'])):
            try:
                num, dealer, vul = Client.parse_board(t)
            except Exception as e:  # noqa
                raise Violation("client cannot parse the server's board header", case, {'line': t, 'exception': repr(e)[:200]})
            check(num == i + 1 and dealer is be.SEAT[b['dealer']] and vul is be.VUL[b['vul']],
                  "client understands the server's board header as a different board", case,
                  {'line': t, 'got': [num, repr(dealer), repr(vul)], 'expected': [i + 1, A.SEATS[b['dealer']], b['vul']]})
            if stats is not None:
                stats.evaluated()
                stats.cls(f'server-built header: board number {"1-3" if i < 3 else "4-12"}')
    if stats is not None:
        stats.evaluated()
        t = scenario['teams']
        if any(ord(ch) > 127 or ch == ' ' for ch in t[0] + t[1]):
            stats.cls('server-built Teams line with non-ASCII or blank-containing team name')
            stats.nt(['teams', t, len(scenario['boards'])], {'teams': t, 'line': [x for d, x in r.client_logs[0] if d == '<'][1]} if len(t[0]) < 6 else None)


def client_parse_problems(scenario, r):
    """Every line the running server put on a connection, read with the BUNDLED client's own parsers (not the tolerant
    reference readers): it must mean what the script says - own and dummy's cards, every relayed call (as the seats sent
    them: any letter case, alert suffixes) and card (either notation), lead prompts, board headers, team names."""
    from bridge_env.network_bridge.client import Client
    from bridge_env.network_bridge.socket_interface import MessageInterface
    out = []
    for s in range(4):
        lines = [t for d, t in r.client_logs[s] if d == '<' and t is not None]
        exp = seat_events(scenario, s)
        if len(lines) != len(exp):
            return [('a seat was sent more or fewer messages than the protocol entitles it to', {'seat': A.SEATS[s], 'received': len(lines), 'expected': len(exp)})]
        decl = None
        bi = -1
        for line, (kind, val) in zip(lines, exp):
            try:
                if kind == 'teams':
                    ok = tuple(Client.parse_team_names(line)) == tuple(val)
                elif kind == 'start':
                    bi += 1
                    res = A.result(scenario['boards'][bi]['dealer'], scenario['boards'][bi]['calls'])
                    decl = None if res is None else res[2]
                    ok = line.lower() == 'start of board'
                elif kind == 'board':
                    num, dealer, vul = Client.parse_board(line)
                    ok = num == val[0] and dealer is be.SEAT[val[1]] and vul is be.VUL[val[2]]
                elif kind == 'cards':
                    who = 'Dummy' if val[0] == 'Dummy' else be.FORMAL[val[0]]
                    hs, hv = Client.parse_hand(Client.parse_cards(line, who))
                    held = val[1]
                    if isinstance(held, Any13):
                        # a board dealt by the table manager: the hand that was sent is the one the log records for this seat
                        names = [P.card_name(c) for c in range(52)]
                        held = {names.index(x) for x in json.loads(r.output_text)['logs'][bi]['deal'][A.SEATS[val[0]]]}
                        val = (val[0], held)
                    ok = {be.CARD_IDX[c] for c in hs} == set(held) and list(hv) == [1 if c in held else 0 for c in range(52)]
                elif kind == 'call':
                    ok = MessageInterface.parse_bid(line, be.FORMAL[val[0]]) is be.BID[val[1]]
                elif kind == 'card':
                    ok = MessageInterface.parse_card(line, be.SEAT[val[0]]) == be.CARD[val[1]]
                elif kind == 'lead':
                    dummy = be.SEAT[(decl + 2) % 4]
                    want = dummy if val == 'Dummy' else be.SEAT[val]
                    ok = Client.parse_leader_message(line, dummy) is want
                elif kind == 'end':
                    ok = line == 'End of session'
                else:
                    ok = True
            except Exception as e:  # noqa
                out.append((f"the bundled client's parser rejects a message the server sent: {kind}", {'seat': A.SEATS[s], 'line': line, 'exception': repr(e)[:200]}))
                return out
            if not ok:
                out.append((f"the bundled client's parser understands a message the server sent differently: {kind}", {'seat': A.SEATS[s], 'line': line, 'expected': _ev((kind, val)) if kind in ('cards', 'call', 'card') else repr(val)}))
                return out
    return out


def check_relayed(scenario, schedule, stats=None):
    r = run_case(scenario, schedule)
    if r.outcome.status != 'completed' or r.server_exc is not None or r.client_exc:
        first_problem(completion_problems(scenario, r), scenario, schedule, r)
    first_problem(stream_problems(scenario, r), scenario, schedule, r)
    first_problem(client_parse_problems(scenario, r), scenario, schedule, r)
    if stats is not None:
        n = sum(1 for s_ in range(4) for d, t in r.client_logs[s_] if d == '<' and t is not None)
        stats.evaluated(n)
        stats.cls("server-sent lines read with the bundled client's parsers", n)
        f = scenario_features(scenario, schedule)
        if 'alerts' in f and 'played board' in f:
            stats.cls('sessions with alerted calls relayed')
            stats.nt(['relay', scenario], None)


PASS_POLICY = {'bids': [[0]] * 4, 'plays': [[8]] * 4}


def check_handshake(scenario, schedule, stats=None):
    """Four BUNDLED clients with generated team names go through admission, the Teams line and the board headers of a
    passed-out session: what the server builds from the team names must be understood by the client's own code."""
    r, records = run_bundled(scenario, schedule, PASS_POLICY)
    case = case_of(scenario, schedule, r, {'policy': PASS_POLICY})
    if r.outcome.status == 'deadlock' and not r.client_exc:
        raise Violation('session with four bundled clients deadlocked', case, {'blocked': r.outcome.detail})
    for s_, e in sorted(r.client_exc.items()):
        raise Violation("the bundled client does not understand what the server built from its team name", case,
                        {'seat': A.SEATS[s_], 'team': scenario['teams'][s_ % 2], 'exception': repr(e)[:300]})
    check(r.server_exc is None, 'table manager raised in a passed-out session with bundled clients', case, {'exception': repr(r.server_exc)[:300]})
    if stats is not None:
        stats.evaluated()
        t = scenario['teams']
        stats.cls('bundled-client handshakes with generated team names')
        if any(ch in '+?*|()[]\\.^$' for ch in t[0] + t[1]):
            stats.cls('team name with a character that is special in regular expressions')
            stats.nt(['hs', t], {'teams': t} if len(t[0]) < 8 else None)


def run_shard_c19(spec, seed, tier, stats):
    if spec['kind'] == 'handshake':
        v = run_hypothesis(lambda scenario, schedule: check_handshake(scenario, schedule, stats),
                           {'scenario': header_scenario(), 'schedule': SCHEDULE()}, seed, spec['n'], tier == 'thorough')
        return [v] if v else []
    if spec['kind'] == 'relayed':
        v = run_hypothesis(lambda scenario, schedule: check_relayed(scenario, schedule, stats),
                           {'scenario': SCENARIO(1, 2, 4), 'schedule': SCHEDULE()}, seed, spec['n'], tier == 'thorough')
        return [reduce_violation(lambda sc, sch, st_=None, **kw: check_relayed(sc, sch, st_), v)] if v else []
    v = run_hypothesis(lambda scenario, schedule: check_server_built(scenario, schedule, stats),
                       {'scenario': header_scenario(), 'schedule': SCHEDULE()}, seed, spec['n'], tier == 'thorough')
    return [v] if v else []
