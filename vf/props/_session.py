"""Oracles over simulated sessions (C08, C09, C10, C11b, C13, C19b) - expectations are computed from the
scenario's script with the independent models only."""
from __future__ import annotations

import json

from hypothesis import strategies as st

from vf.common.core import Violation, Inconclusive, check, h64, run_hypothesis
from vf.common import be
from vf.model import auction as A, play as P, protocol as PR, score as SC
from vf.gen import sessions as GS
from vf.props import _play as PL
from vf.sim.session import run_session

STEP_BOUND = 400000


# ---------------------------------------------------------------------------------------
# expectations from the script

def board_expect(b):
    """Model result of a scripted board."""
    res = A.result(b['dealer'], b['calls'])
    out = {'board_id': b['id'], 'dealer': A.SEATS[b['dealer']], 'vulnerability': b['vul'],
           'deal': {A.SEATS[s]: PL.fmt_cards(PL.hands_of(b['owner'])[s]) for s in range(4)},
           'bid_history': [A.call_name(c) for c in b['calls']]}
    if res is None:
        out.update(contract='Passed_out', declarer=None, play_history=None, taken_trick=None, scores={'NS': 0, 'EW': 0})
        return out
    bid, dbl, decl = res
    m = P.Play(decl, bid % 5)
    for c in b['cards']:
        m.play(c)
    tricks = m.tricks[decl % 2]
    sc = SC.score(bid // 5 + 1, bid % 5, dbl, SC.side_vulnerable(b['vul'], decl), tricks)
    scores = {'NS': sc, 'EW': -sc} if decl % 2 == 0 else {'NS': -sc, 'EW': sc}
    out.update(contract=A.call_name(bid) + ('', 'X', 'XX')[dbl], declarer=A.SEATS[decl],
               play_history=[{'leader': A.SEATS[l], 'cards': PL.fmt_cards(cs)} for l, cs in m.history],
               taken_trick=tricks, scores=scores)
    return out


LOG_FIELDS = ['board_id', 'dealer', 'vulnerability', 'deal', 'bid_history', 'contract', 'declarer', 'play_history',
              'taken_trick', 'scores']


def seat_events(scenario, seat):
    """The exact sequence of (kind, value) events a seat is entitled to on its connection."""
    ev = [('seated', (seat, scenario['teams'][seat % 2])), ('teams', (scenario['teams'][0], scenario['teams'][1]))]
    for bi, b in enumerate(scenario['boards']):
        ev.append(('start', None))
        ev.append(('board', (bi + 1, b['dealer'], b['vul'])))
        ev.append(('cards', (seat, set(PL.hands_of(b['owner'])[seat]))))
        for i, call in enumerate(b['calls']):
            actor = (b['dealer'] + i) % 4
            if actor != seat:
                ev.append(('call', (actor, call)))
        res = A.result(b['dealer'], b['calls'])
        if res is not None:
            bid, dbl, decl = res
            dummy = (decl + 2) % 4
            m = P.Play(decl, bid % 5)
            hands = PL.hands_of(b['owner'])
            for j, card in enumerate(b['cards']):
                actor = m.turn
                first = len(m.trick) == 0
                mine = (actor == seat and seat != dummy) or (actor == dummy and seat == decl)
                if mine:
                    if first:
                        ev.append(('lead', 'Dummy' if actor == dummy else seat))
                else:
                    ev.append(('card', (actor, card)))
                m.play(card)
                if j == 0 and seat != dummy:
                    ev.append(('cards', ('Dummy', set(hands[dummy]))))
    ev.append(('end', None))
    return ev


# ---------------------------------------------------------------------------------------
# running

def run_case(scenario, schedule, **kw):
    r = run_session(scenario, schedule, max_steps=STEP_BOUND, **kw)
    if r.outcome.status == 'step_bound':
        raise Inconclusive(f'step bound {STEP_BOUND} reached (scenario {h64(scenario):x})')
    return r


def case_of(scenario, schedule, r=None, extra=None):
    c = {'scenario': scenario, 'schedule': schedule}
    if r is not None:
        c['trace'] = r.outcome.trace
    if extra:
        c.update(extra)
    return c


def brief(scenario):
    return {'boards': [{'id': b['id'], 'dealer': A.SEATS[b['dealer']], 'vul': b['vul'], 'calls': [A.call_name(c) for c in b['calls']],
                        'first_cards': PL.fmt_cards(b['cards'][:4])} for b in scenario['boards']],
            'teams': scenario['teams'], 'arrival': scenario['arrival'], 'fmt': {k: v for k, v in scenario.get('fmt', {}).items() if k != 'mask'}}


def completion_problems(scenario, r):
    """C09 oracle: list of (clause, detail)."""
    out = []
    o = r.outcome
    if o.status == 'deadlock':
        out.append(('session deadlocked: no thread can take a step', {'blocked': o.detail, 'steps': o.steps}))
        return out
    if r.server_exc is not None:
        out.append(('table manager raised with four conforming clients', {'exception': repr(r.server_exc)[:300], 'tb': (r.server_tb or '')[-600:]}))
    for s, e in sorted(r.client_exc.items()):
        out.append(('a conforming client could not finish the session', {'seat': A.SEATS[s], 'exception': repr(e)[:300]}))
    for s in range(4):
        if s not in r.client_exc and not r.client_state[s].get('ended'):
            out.append(('a client was not sent "End of session"', {'seat': A.SEATS[s]}))
    if o.detail:
        out.append(('a server thread never finished', {'stuck': o.detail}))
    for name, e in o.exceptions.items():
        if name.startswith('seat-thread'):
            out.append(('a seat thread died with an exception', {'thread': name, 'exception': repr(e)[:300]}))
    if not out:
        try:
            doc = json.loads(r.output_text)
            if len(doc['logs']) != len(scenario['boards']):
                out.append(('closed log does not hold every board', {'boards_in_log': len(doc['logs'])}))
        except Exception as e:  # noqa
            out.append(('log file is not a complete JSON document', {'error': repr(e)[:200], 'tail': (r.output_text or '')[-80:]}))
    return out


def log_problems(scenario, r):
    """C08 oracle."""
    out = []
    try:
        doc = json.loads(r.output_text)
        logs = doc['logs']
    except Exception as e:  # noqa
        return [('log file is not a complete JSON document', {'error': repr(e)[:200]})]
    exp = [board_expect(b) for b in scenario['boards']]
    if len(logs) != len(exp):
        return [('log does not list the configured boards', {'in_log': len(logs), 'configured': len(exp)})]
    for i, (g, e) in enumerate(zip(logs, exp)):
        for f in LOG_FIELDS:
            if g.get(f, '<missing>') != e[f]:
                out.append((f'log field differs from what was played: {f}', {'board': i, 'logged': g.get(f, '<missing>'), 'expected': e[f]}))
                break
        sc = g.get('scores', {})
        if isinstance(sc, dict) and sc.get('NS', 0) != -sc.get('EW', 0):
            out.append(('the two sides\' scores are not negatives of each other', {'board': i, 'scores': sc}))
    return out


def transcript_problems(scenario, r):
    """C10 oracle: the complete server->client stream of each connection, as events."""
    out = []
    lead_sent_step = {}
    # global clock: step at which the opening lead of each board was sent by its leader
    for s in range(4):
        lines = [t for d, t in r.client_logs[s] if d == '<' and t is not None]
        got = [PR.classify(t) for t in lines]
        exp = seat_events(scenario, s)
        n = min(len(got), len(exp))
        for i in range(n):
            if got[i] != exp[i]:
                out.append((f'a seat was sent something it is not entitled to (or in the wrong order): expected {exp[i][0]}',
                            {'seat': A.SEATS[s], 'index': i, 'line': lines[i], 'got': _ev(got[i]), 'expected': _ev(exp[i]),
                             'previous_line': lines[i - 1] if i else None}))
                break
        else:
            if len(got) != len(exp):
                extra = lines[n:n + 3]
                out.append(('a seat was sent more or fewer messages than the protocol entitles it to',
                            {'seat': A.SEATS[s], 'received': len(got), 'expected': len(exp), 'extra': extra,
                             'missing': [_ev(e) for e in exp[n:n + 3]]}))
    out.extend(dummy_timing_problems(scenario, r))
    return out


def _ev(e):
    k, v = e
    if k == 'cards':
        return [k, v[0] if v[0] == 'Dummy' else A.SEATS[v[0]], PL.fmt_cards(sorted(v[1]))]
    if k == 'call':
        return [k, A.SEATS[v[0]], A.call_name(v[1])]
    if k == 'card':
        return [k, A.SEATS[v[0]], P.card_name(v[1])]
    return [k, v if not isinstance(v, tuple) else list(v)]


def dummy_timing_problems(scenario, r):
    """Dummy's cards may be put on any connection only after the opening lead was sent by the leader
    (global step clock of the simulated network)."""
    out = []
    conn_seat = {}
    for cid, conn in enumerate(r.net.conns):
        if conn.label and conn.label.startswith('client-'):
            conn_seat[cid] = A.SEATS.index(conn.label[-1])
    # walk the raw sends in global order, tracking per board the step of the opening lead
    board_idx = {s: -1 for s in range(4)}
    lead_step = {}
    for step, cid, direction, data in r.net.sends:
        seat = conn_seat.get(cid)
        if seat is None:
            continue
        text = data.decode('utf-8', 'replace').rstrip('\r\n')
        if direction == 's2c' and PR.is_start_of_board(text):
            board_idx[seat] += 1
        elif direction == 'c2s':
            v = PR.read_card(text)
            if v is not None and board_idx[seat] not in lead_step:
                lead_step[board_idx[seat]] = step
        elif direction == 's2c':
            v = PR.read_cards(text)
            if v is not None and v[0] == 'Dummy':
                b = board_idx[seat]
                if b not in lead_step or lead_step[b] >= step:
                    out.append(("dummy's cards were sent before the opening lead was played", {'seat': A.SEATS[seat], 'board': b, 'step': step}))
    return out


# ---------------------------------------------------------------------------------------
# statistics

def scenario_features(scenario, schedule):
    f = set()
    for b in scenario['boards']:
        res = A.result(b['dealer'], b['calls'])
        if res is None:
            f.add('passed-out board')
            continue
        bid, dbl, decl = res
        f.add('played board')
        if decl % 2 == 1:
            f.add('declarer EW')
        if dbl:
            f.add('doubled/redoubled contract')
        m = P.Play(decl, bid % 5)
        for c in b['cards']:
            if len(m.trick) == 0 and m.turn == m.dummy:
                f.add('dummy leads a trick')
            m.play(c)
    if len(scenario['boards']) > 1:
        f.add('>=2 boards')
    if schedule.get('kind') != 'sequential' or schedule.get('stalls'):
        f.add('non-sequential schedule')
    if schedule.get('stalls'):
        f.add('schedule with stalls')
    if scenario.get('fmt', {}).get('alerts'):
        f.add('alerts')
    if scenario.get('fmt', {}).get('case', 'asis') != 'asis':
        f.add('non-default letter case')
    if scenario.get('split'):
        f.add('split deliveries')
    return f


SCENARIO = GS.scenario
SCHEDULE = GS.schedule


def first_problem(problems, scenario, schedule, r):
    if problems:
        clause, detail = problems[0]
        raise Violation(clause, case_of(scenario, schedule, r), detail)


def replay(pid, rec):
    """Re-executes a session case: first along the recorded explicit trace, then (if that passes) with the
    generating schedule."""
    c = rec['case']
    scenario = c['scenario']
    mod = __import__(f'vf.props.{pid.lower()}', fromlist=['x'])
    for sched in ([{'kind': 'replay', 'trace': c['trace']}] if c.get('trace') else []) + [c['schedule']]:
        try:
            mod.check_session(scenario, sched, None, **{k: c[k] for k in ('fault', 'schedule2', 'attempts', 'policy') if k in c})
        except Violation as v:
            return v
    return None


def plan_c11(tier):
    return []


def plan_c19(tier):
    return []
