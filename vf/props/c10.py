"""C10 - each seat is told exactly what the protocol entitles it to, and nothing else."""
from hypothesis import strategies as st
from vf.common.core import Violation, run_hypothesis
from vf.props import _session as SE

ID = 'C10'
USES_SIM = True
LEVEL = 'exploration'
RULE = ('simulated sessions (generator of C08/C09, generated schedules); the simulated network records every line of every '
        'connection in both directions with a global step number. Oracle: the complete server->client stream of each of '
        'the four seats, read with the tolerant reference readers of vf/model/protocol.py, equals the exact event sequence '
        'computed from the script: seated, teams, then per board: start, header (configured number, dealer, vulnerability), '
        'own 13 cards, each other seat\'s call exactly once in order (none of its own), per trick the lead prompt iff this '
        'seat must lead (declarer when dummy leads; never dummy), each card not sent on this connection exactly once in '
        'order, dummy\'s cards exactly once to each non-dummy seat after the opening lead and before the second card; '
        'finally End of session; nothing else. Global clock: no connection is sent dummy\'s cards before the leader has '
        'sent the opening lead. In a fifth of the sessions a SECOND table (another Server object on another port with its own four clients, boards and log) runs concurrently in the same process under the same schedule; both tables are judged by the same oracles. evaluations = sessions. Non-trivial = played board in which dummy leads a trick (so '
        '"Dummy to lead" occurs) under a non-sequential schedule; distinct by scenario hash.')
ASSUMPTIONS = ['simulation kernel fidelity (DESIGN.md 4.3/4.5)', 'server text is read with tolerant regexes (any case, runs of blanks)']


def plan(tier):
    n, per = (16, 200) if tier == 'quick' else (16, 5000)
    mb = 3 if tier == 'quick' else 6
    return [{'kind': 'sessions', 'n': per, 'max_boards': mb, 'play_prob': 5} for i in range(n)]


TABLE2 = st.one_of(st.none(), st.none(), st.none(), st.none(), SE.SCENARIO(1, 2, 2).map(lambda sc: dict(sc, intruders=[], split=None)))


def check_session(scenario, schedule, stats=None, table2=None, **kw):
    if table2 is not None:
        scenario = dict(scenario, table2=table2)
    r = SE.run_case(scenario, schedule)
    probs = SE.transcript_problems(scenario, r) + SE.second_table_problems(scenario, r)
    if not probs and r.outcome.status != 'completed':
        SE.first_problem(SE.completion_problems(scenario, r), scenario, schedule, r)
    SE.first_problem(probs, scenario, schedule, r)
    if stats is not None:
        stats.evaluated()
        f = SE.scenario_features(scenario, schedule)
        for x in f:
            stats.cls(x)
        if scenario.get('table2') is not None:
            stats.cls('sessions with a second table running concurrently in the same process (own server, clients, log)')
        if 'dummy leads a trick' in f and 'non-sequential schedule' in f:
            stats.nt(scenario, {'scenario': SE.brief(scenario),
                                'north_received': [t for d, t in r.client_logs[0] if d == '<'][:12]} if len(scenario['boards']) == 1 else None)


def run_shard(spec, seed, tier, stats):
    v = run_hypothesis(lambda scenario, schedule, table2: check_session(scenario, schedule, stats, table2=table2),
                       {'scenario': SE.SCENARIO(1, spec['max_boards'], spec['play_prob']), 'schedule': SE.SCHEDULE(), 'table2': TABLE2},
                       seed, spec['n'], tier == 'thorough')
    return [SE.reduce_violation(check_session, v)] if v else []


def replay(rec):
    return SE.replay('C10', rec)
