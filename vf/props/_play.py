"""Shared board driver for C04/C05/C06/C11(a): drives bridge_env's playing phases along a
generated play sequence and compares with the independent model vf/model/play.py."""
from __future__ import annotations

import copy

from hypothesis import strategies as st
from vf.gen.perm import permutations

from vf.common.core import Violation, check, guard, must_raise, h64
from vf.common import be
from vf.model import auction as A, play as P

ALL = frozenset(range(52))


# ---------------------------------------------------------------------------------------
# generators (construction only)

def deal_from(base, swaps):
    """owner[c] for the 52 cards: start from 'every seat holds one complete suit' (rotated by base) and apply
    the drawn transpositions.  Few swaps => voids and very long suits; many => ordinary deals."""
    owner = [(c // 13 + base) % 4 for c in range(52)]
    for i, j in swaps:
        owner[i], owner[j] = owner[j], owner[i]
    return owner


SWAPS = st.one_of(
    st.lists(st.tuples(st.integers(0, 51), st.integers(0, 51)), min_size=0, max_size=6),
    st.lists(st.tuples(st.integers(0, 51), st.integers(0, 51)), min_size=6, max_size=30),
    st.lists(st.tuples(st.integers(0, 51), st.integers(0, 51)), min_size=60, max_size=120),
)
DEAL = st.one_of(
    st.builds(deal_from, st.integers(0, 3), SWAPS),
    permutations(list(range(52))).map(lambda perm: [perm.index(c) // 13 for c in range(52)]),
)
# a play choice: (follow?, index)
PLAYS = st.lists(st.tuples(st.sampled_from([True, True, True, True, True, False]), st.integers(0, 12)),
                 min_size=52, max_size=52)
PLAYS_REVOKE_FREE = st.lists(st.tuples(st.just(True), st.integers(0, 12)), min_size=52, max_size=52)
CONTRACT = st.tuples(st.integers(0, 34), st.integers(0, 3), st.integers(0, 2), st.sampled_from(be.VUL_NAMES))


def hands_of(owner):
    return [sorted(c for c in range(52) if owner[c] == s) for s in range(4)]


def deal_features(owner):
    hs = hands_of(owner)
    f = set()
    for h in hs:
        lens = [sum(1 for c in h if c // 13 == su) for su in range(4)]
        if 0 in lens:
            f.add('void')
        if max(lens) >= 8:
            f.add('8+ card suit')
    return f


def script_cards(owner, declarer, strain, plays):
    """Resolve the drawn play choices into 52 concrete cards with the model."""
    m = P.Play(declarer, strain)
    hands = [set(h) for h in hands_of(owner)]
    out, revokes = [], 0
    for follow, idx in plays:
        s = m.turn
        led = m.trick[0] if m.trick else None
        legal = sorted(P.follow_set(hands[s], led))
        pool = legal if follow else sorted(hands[s])
        c = pool[idx % len(pool)]
        if c not in legal:
            revokes += 1
        hands[s].discard(c)
        out.append(c)
        m.play(c)
    return out, revokes


# ---------------------------------------------------------------------------------------
# observables

def pub_state(env):
    """Public state of any PlayingPhase as plain values."""
    return {
        'declarer': be.SEAT_IDX[env.declarer], 'dummy': be.SEAT_IDX[env.dummy],
        'leader': be.SEAT_IDX[env.leader], 'turn': be.SEAT_IDX[env.active_player],
        'trick_num': env.trick_num,
        'tricks': [env.taken_tricks[be.PAIR[0]], env.taken_tricks[be.PAIR[1]]],
        'done': bool(env.has_done()),
        'history': [[be.SEAT_IDX[t.leader], [be.CARD_IDX[c] for c in t.cards]] for t in env.playing_history.history],
        'trump': be.SUIT_IDX[env.trump],
    }


def model_state(m):
    return {
        'declarer': m.declarer, 'dummy': m.dummy, 'leader': m.leader, 'turn': m.turn,
        'trick_num': m.trick_num, 'tricks': list(m.tricks), 'done': m.done(),
        'history': [[l, list(cs)] for l, cs in m.history], 'trump': m.strain,
    }


def led_view(env):
    """What the environment reveals about the current trick: the suit that must be followed."""
    cards = env.current_available_cards(set(be.CARD))
    if len(cards) == 52:
        return None
    return sorted(be.CARD_IDX[c] for c in cards)[0] // 13


def full_snapshot(env):
    s = pub_state(env)
    s['used'] = sorted(be.CARD_IDX[c] for c in env.used_cards)
    s['led_suit'] = led_view(env)
    if hasattr(env, 'hands'):
        s['hands'] = be.hands_to_ints(env.hands)
    if hasattr(env, 'hand'):
        s['hand'] = sorted(be.CARD_IDX[c] for c in env.hand)
        dh = env.dummy_hand
        s['dummy_hand'] = None if dh is None else sorted(be.CARD_IDX[c] for c in dh)
    return s


def diff_keys(a, b):
    return [k for k in a if a[k] != b.get(k)]


def fmt_cards(cs):
    return [P.card_name(c) for c in cs]


DEAL_SOURCES = ['constructor', 'PBN deal text', 'JSON card lists', 'binary vectors']


def deal_object(owner):
    """The Hands object a board is played on comes from the constructor or - one deal in four, chosen by the deal itself - from
    one of the library's decoders (a board file, a log, a vector): a deal is a deal wherever it came from."""
    from bridge_env import Hands
    from vf.model import pbn as MP
    hs = hands_of(owner)
    k = (sum(hs[0]) + 5 * sum(hs[1][:3])) % 12
    if k == 1:
        return Hands.convert_pbn(MP.deal_text(hs, sum(hs[2][:2]) % 4)), 1
    if k == 2:
        from bridge_env.data_handler.json_handler.parser import hands_parser
        return hands_parser({A.SEATS[s]: fmt_cards(hs[s]) for s in range(4)}), 2
    if k == 3:
        return Hands.convert_binary({be.SEAT[s]: tuple(1 if c in hs[s] else 0 for c in range(52)) for s in range(4)}), 3
    return be.hands_from_owner(owner), 0


class Board:
    """A board in play: the full-information game, optionally four observers, and the model."""

    def __init__(self, owner, contract, observers=False):
        from bridge_env.playing_phase import PlayingPhaseWithHands, ObservedPlayingPhase
        bid, decl, dbl, vul = contract
        self.owner, self.contract_t = list(owner), contract
        self.strain, self.declarer = bid % 5, decl
        self.contract = be.contract_of(bid, dbl, vul, decl)
        self.m = P.Play(decl, self.strain)
        self.hands = [set(h) for h in hands_of(owner)]       # model hands
        deal, self.deal_source = deal_object(owner)
        self.env = PlayingPhaseWithHands(self.contract, deal)
        self.obs = None
        if observers:
            self.obs = [ObservedPlayingPhase(self.contract, be.SEAT[o], {be.CARD[c] for c in self.hands[o]})
                        for o in range(4)]
        self.cards = []

    def case(self, extra=None):
        bid, decl, dbl, vul = self.contract_t
        c = {'contract': A.call_name(bid) + ('', 'X', 'XX')[dbl], 'declarer': A.SEATS[decl], 'vul': vul,
             'deal': {A.SEATS[s]: fmt_cards(hands_of(self.owner)[s]) for s in range(4)},
             'played': fmt_cards(self.cards)}
        if self.deal_source:
            c['deal_object_from'] = DEAL_SOURCES[self.deal_source]
        if extra:
            c.update(extra)
        return c

    def legal_now(self, seat=None):
        s = self.m.turn if seat is None else seat
        led = self.m.trick[0] if self.m.trick else None
        return P.follow_set(self.hands[s], led)

    def play(self, c, clause_prefix='table manager'):
        """Play card c by the seat on turn on the full game (and observers), then advance the model."""
        s = self.m.turn
        case = self.case({'next': P.card_name(c), 'by': A.SEATS[s]})
        guard(f'{clause_prefix} rejected a play by the seat on turn of a card it holds', case,
              self.env.play_card_by_player, be.CARD[c], be.SEAT[s])
        if self.obs is not None:
            first = len(self.cards) == 0
            for o, ob in enumerate(self.obs):
                guard('an observer rejected an action the table manager accepted', dict(case, observer=A.SEATS[o]),
                      ob.play_card_by_player, be.CARD[c], be.SEAT[s])
            if first:
                # dummy is disclosed after the opening lead to the three other seats (what the client does)
                for o, ob in enumerate(self.obs):
                    if o != self.m.dummy:
                        ob.set_dummy_hand({be.CARD[x] for x in self.hands[self.m.dummy]})
        self.hands[s].discard(c)
        self.cards.append(c)
        self.m.play(c)

    # -- C04 ------------------------------------------------------------------------------
    def check_laws(self):
        got, exp = pub_state(self.env), model_state(self.m)
        if got != exp:
            ks = diff_keys(exp, got)
            raise Violation('play state disagrees with the laws: ' + ','.join(ks), self.case(),
                            {k: {'got': got[k], 'expected': exp[k]} for k in ks})
        for o, ob in enumerate(self.obs or ()):
            got = pub_state(ob)
            if got != exp:
                ks = diff_keys(exp, got)
                raise Violation("single-seat observer's play state disagrees with the laws: " + ','.join(ks), self.case({'observer': A.SEATS[o]}),
                                {k: {'got': got[k], 'expected': exp[k]} for k in ks})

    # -- C05 ------------------------------------------------------------------------------
    def check_conservation(self):
        case = self.case()
        hs = be.hands_to_ints(self.env.hands)
        used = sorted(be.CARD_IDX[c] for c in self.env.used_cards)
        check(used == sorted(self.cards), 'played cards are not exactly the accepted plays', case,
              {'used': fmt_cards(used)})
        for s in range(4):
            check(hs[s] == sorted(self.hands[s]), 'a hand is not the original hand minus its accepted plays', case,
                  {'seat': A.SEATS[s], 'got': fmt_cards(hs[s]), 'expected': fmt_cards(sorted(self.hands[s]))})
        allc = sorted(used + [c for h in hs for c in h])
        check(allc == list(range(52)), 'hands and played cards do not partition the pack', case)
        if self.m.done():
            check(all(len(h) == 0 for h in hs), 'a hand is not empty after 52 plays', case)

    def refuse(self, env, card, seat, what, who='table manager'):
        """env must refuse play (card, seat) with an error and stay unchanged."""
        case = self.case({'fault': what, 'card': P.card_name(card), 'by': A.SEATS[seat], 'on': who})
        before = full_snapshot(env)
        try:
            env.play_card_by_player(be.CARD[card], be.SEAT[seat])
        except Exception:
            pass
        else:
            raise Violation(f'{what}: play was accepted', case, {'changed': diff_keys(before, full_snapshot(env))})
        after = full_snapshot(env)
        check(after == before, f'{what}: refused play changed the state', case,
              {'changed': diff_keys(before, after)})


def fault_candidates(b: Board, observer=None):
    """All (card, seat, kind) faults applicable at the current position. For an observer only the faults it can
    detect (its own hand, dummy's hand once disclosed, and any out-of-turn play)."""
    m = b.m
    out = []
    turn = m.turn
    played = list(b.cards)
    over = m.done()
    for s in range(4):
        if s != turn:
            # out of turn, a card the seat does hold
            for c in sorted(b.hands[s])[:1] + sorted(b.hands[s])[-1:]:
                out.append((c, s, 'out-of-turn play of a held card'))
    # out of turn and not even the seat's own card: e.g. declarer named for a card of dummy while dummy is on turn
    if not over and b.hands[turn]:
        for s in ((turn + 2) % 4, (turn + 1) % 4):
            out.append((sorted(b.hands[turn])[0], s, 'out-of-turn play of a card held by the seat on turn'))
    # out of turn AND already played: the seat that played last offers the same card again (a retransmitted message),
    # and the seat that opened the play offers its opening lead again
    if played and not over:
        pm = P.Play(m.declarer, m.strain)
        who = []
        for c in played:
            who.append(pm.turn)
            pm.play(c)
        for idx in {len(played) - 1, 0}:
            if who[idx] != turn:
                out.append((played[idx], who[idx], 'out-of-turn repeat of a card that seat already played'))
    known = (lambda s: True) if observer is None else (lambda s: s == observer or (s == m.dummy and len(played) >= 1 and observer != m.dummy) or s == observer)
    if known(turn):
        others = sorted(c for s in range(4) if s != turn for c in b.hands[s])
        for c in others[:1] + others[-1:]:
            out.append((c, turn, 'play of a card held by another seat'))
        for c in played[:1] + played[-1:]:
            out.append((c, turn, 'play of a card already played'))
    if observer is not None and not over and len(played) >= 1 and observer != m.dummy:
        # the two hands an observer sees must not be mixed up: on its own turn a card of dummy's, on dummy's turn one of its own
        if turn == observer and b.hands[m.dummy]:
            out.append((sorted(b.hands[m.dummy])[-1], turn, 'play of a card held by another seat'))
        if turn == m.dummy and b.hands[observer]:
            out.append((sorted(b.hands[observer])[-1], turn, 'play of a card held by another seat'))
    if over and observer is None:
        for s in range(4):
            for c in (0, 51):
                out.append((c, s, 'play after the 52nd card'))
    # dedupe
    seen, res = set(), []
    for x in out:
        if x[:2] not in seen:
            seen.add(x[:2])
            res.append(x)
    return res
