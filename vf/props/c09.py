"""C09 - a session with four conforming clients always runs to completion (every schedule)."""
from hypothesis import strategies as st
from vf.common.core import Violation, run_hypothesis
from vf.model import auction as A
from vf.props import _session as SE

ID = 'C09'
USES_SIM = True
LEVEL = 'exploration'
RULE = ('simulated sessions (DESIGN.md section 4): the unmodified Server with its four seat threads and four conforming '
        'clients run inside a schedule-owning kernel; the schedule is a generated input: preemption lists, sparse '
        'preemptions, PCT priorities with change points, uniformly random choices (seeded by a drawn integer), each '
        'optionally combined with up to 3 stalls (freeze main / one seat thread / one client from its k-th scheduling '
        'point for n steps or until nothing else can run), plus the sequential schedule; 1-3 boards (quick) / 1-6 '
        '(thorough) incl. all-passed-out and mixed lists, generated deals, legal auctions, plays (revokes included), '
        'client formatting and arrival order; in a quarter of the runs the four players are the bundled Client with generated legal policies; in a fifth of the reference-client runs the same Server object then hosts a second generated session, which must complete and log its boards as well. Oracle: the run ends completed - Server.run returned without exception, '
        'every seat thread finished without exception, every client read "End of session", the log is complete JSON '
        'holding every board; "no task enabled while one is unfinished" is a deadlock = violation (replay = scenario + '
        'explicit schedule trace). evaluations = sessions run. Non-trivial = completed run in which some enabled task '
        'was passed over for >= 50 consecutive steps (a real stall) under a non-sequential schedule; distinct by '
        '(scenario, trace) hash.')
ASSUMPTIONS = ['simulation kernel fidelity: CPython semantics of Event/Queue/Barrier, lossless ordered in-memory streams '
               '(DESIGN.md 4.3/4.5); liveness decided on finite runs under fair-in-the-limit schedules']


def plan(tier):
    n, per = (16, 220) if tier == 'quick' else (16, 6000)
    mb = 3 if tier == 'quick' else 6
    sh = [{'kind': 'sessions', 'n': per, 'max_boards': mb, 'play_prob': 3 if i % 4 else 1} for i in range(n)]
    nb, perb = (5, 100) if tier == 'quick' else (8, 3000)
    sh += [{'kind': 'bundled', 'n': perb, 'max_boards': mb} for _ in range(nb)]      # the bundled Client as the four players
    # complete sets of schedules with <= 1 (thorough: also <= 2) deviations from the default policy
    enum = [('P', 0, 1, 2), ('P', 1, 1, 2), ('PP', 0, 1, 4), ('PP', 1, 1, 4)] if tier == 'quick' else \
        [('P', 0, 1, 1), ('P', 1, 1, 1), ('PP', 0, 1, 2), ('PP', 1, 1, 2), ('B', 0, 1, 16), ('B', 1, 1, 16), ('BP', 0, 1, 16), ('PB', 1, 1, 16),
         ('P', 0, 2, 32), ('P', 1, 2, 32)]
    for name, order, bound, of in enum:
        sh += [{'kind': 'enumeration', 'scenario': name, 'order': order, 'bound': bound, 'shard': i, 'of': of} for i in range(of)]
    # the same with a scheduling point at every source line of PlayerThread._connect / run and Server.run: the seat table
    # (a plain dict shared by the threads) is then no longer assumed to change atomically with the neighbouring step
    for order in ((2,) if tier == 'quick' else (0, 1, 2)):
        sh += [{'kind': 'enumeration', 'scenario': 'P', 'order': order, 'bound': 1, 'shard': i, 'of': 8, 'traced': True} for i in range(8)]
    sh += [{'kind': 'enumeration', 'scenario': 'P', 'order': 2, 'bound': 1, 'shard': i, 'of': 4} for i in range(4)]
    return sh


# ---------------------------------------------------------------------------------------
# preemption-bounded enumeration (complete finite sets of schedules for fixed small sessions)

def fixed_scenario(name):
    """Deterministic sessions: P = one passed-out board, B = one played board (1NT by North, dummy wins tricks),
    and their two-board combinations."""
    from vf.props import _play as PL
    owner = [(c // 13 + (c % 13) % 4) % 4 for c in range(52)]       # every seat holds every suit
    out = []
    for i, ch in enumerate(name):
        if ch == 'P':
            out.append({'id': f'p{i}', 'dealer': i % 4, 'vul': 'None', 'owner': owner, 'dda': None, 'calls': [A.PASS] * 4, 'cards': []})
        else:
            calls = [A.PASS, 4, A.X, A.PASS, A.PASS, A.PASS] if i % 2 else [4, A.PASS, A.PASS, A.PASS]    # 1NT (doubled on odd boards)
            dealer = (i + 3) % 4
            res = A.result(dealer, calls)
            cards, _ = PL.script_cards(owner, res[2], res[0] % 5, [(True, (j * 5) % 13) for j in range(52)])
            out.append({'id': f'b{i}', 'dealer': dealer, 'vul': 'NS', 'owner': owner, 'dda': None, 'calls': calls, 'cards': cards})
    return {'boards': out, 'teams': ['ns', 'ew'], 'arrival': [2, 0, 3, 1], 'fmt': {}}


def run_enumeration(spec, stats):
    """All schedules with at most `spec['bound']` deviations from the default policy (1: every (step, alternative) pair;
    2: every pair of such pairs, the second enumerated on the run altered by the first)."""
    from vf.sim.explore import Preemptions
    scenario = fixed_scenario(spec['scenario'])
    order, shard, of, bound = spec['order'], spec['shard'], spec['of'], spec['bound']

    trace = (('/network_bridge/server.py',), ('_connect', 'run')) if spec.get('traced') else None

    def points(at):
        rec = []
        r = SE.run_case(scenario, Preemptions(at, order, rec), trace=trace)
        return r, [(step, k) for step, n in rec for k in range(1, n)]

    def one(at):
        sched = {'kind': 'pre', 'at': {str(s): k for s, k in at.items()}, 'order': order}
        r = SE.run_case(scenario, sched, trace=trace)
        if trace:
            sched = dict(sched, traced=True)
        SE.first_problem(SE.completion_problems(scenario, r), scenario, sched, r)
        stats.evaluated()
        stats.cls(f'enumerated: {spec["scenario"]} bound {bound} order {order}' + (' (line-level points inside the admission code and the run loops)' if trace else ''))
        if r.outcome.max_waited >= 50:
            stats.cls('runs with a real stall (>=50 steps)')
        stats.nt(['enum', spec['scenario'], order, bool(trace), sorted(at.items())],
                 {'enumerated_session': spec['scenario'], 'default_order': order, 'deviations': sorted(at.items()), 'steps': r.outcome.steps}
                 if len(stats.samples) < 2 else None)

    base, pts = points({})
    SE.first_problem(SE.completion_problems(scenario, base), scenario, {'kind': 'pre', 'at': {}, 'order': order}, base)
    if shard == 0:
        stats.notes.append(f'enumeration {spec["scenario"]} order {order}: default run {base.outcome.steps} steps, {len(pts)} (step, alternative) points')
    try:
        if bound == 1:
            for i, (step, k) in enumerate(pts):
                if i % of == shard:
                    one({step: k})
        else:
            for i, (step, k) in enumerate(pts):
                if i % of != shard:
                    continue
                _, pts2 = points({step: k})
                for step2, k2 in pts2:
                    if step2 > step:
                        one({step: k, step2: k2})
    except Violation as v:
        return [v]
    return []


def check_ref_session(scenario, schedule, stats=None, second=None, **kw):
    trace = (('/network_bridge/server.py',), ('_connect', 'run')) if isinstance(schedule, dict) and schedule.get('traced') else None
    r = SE.run_case(scenario, schedule, trace=trace)
    SE.first_problem(SE.completion_problems(scenario, r), scenario, schedule, r)
    if second is not None:
        # the same Server object hosts another session afterwards (entered again with `with server: server.run()`): that is a
        # session like any other - it must run to completion and log its own boards
        r2 = SE.run_case(second, schedule, trace=trace, server_obj=r.server)
        probs = SE.completion_problems(second, r2) or SE.log_problems(second, r2)
        if r2.server_exc is not None and not any(r2.client_state[s_].get('seated') for s_ in range(4)):
            # nothing promises that a Server object can host two sessions: one that REFUSES the second use with an error before
            # it seats anybody is not judged (skipped and counted); one that starts and then hangs or loses boards is
            probs = []
            if stats is not None:
                stats.excluded['Server object refused to host a second session (not judged)'] += 1
        if probs:
            raise Violation('second session on the same Server object: ' + probs[0][0], SE.case_of(scenario, schedule, r2, {'second': second}), probs[0][1])
        if stats is not None:
            stats.evaluated()
            stats.cls('a second session hosted by the same Server object')
    if stats is not None:
        stats.evaluated()
        f = SE.scenario_features(scenario, schedule)
        for x in f:
            stats.cls(x)
        stats.cls(f'schedule kind {schedule["kind"]}')
        stats.cls('steps ' + ('<1000' if r.outcome.steps < 1000 else '<4000' if r.outcome.steps < 4000 else '>=4000'))
        if r.outcome.max_waited >= 50 and 'non-sequential schedule' in f:
            stats.cls('runs with a real stall (>=50 steps)')
            stats.nt([scenario, r.outcome.trace[:2000]],
                     {'scenario': SE.brief(scenario), 'schedule_kind': schedule['kind'], 'stalls': schedule.get('stalls'),
                      'steps': r.outcome.steps, 'max_waited': r.outcome.max_waited} if len(scenario['boards']) == 1 else None)
    return r


def check_session(scenario, schedule, stats=None, policy=None, second=None, **kw):
    if policy is not None:
        return SE.check_bundled(scenario, schedule, policy, stats)
    return check_ref_session(scenario, schedule, stats, second=second)


def run_shard(spec, seed, tier, stats):
    if spec['kind'] == 'enumeration':
        return run_enumeration(spec, stats)
    if spec['kind'] == 'bundled':
        v = run_hypothesis(lambda scenario, schedule, policy: SE.check_bundled(scenario, schedule, policy, stats),
                           {'scenario': SE.bundled_scenario(spec['max_boards']), 'schedule': SE.SCHEDULE(), 'policy': SE.POLICY},
                           seed, spec['n'], tier == 'thorough')
        return [SE.reduce_violation(check_session, v)] if v else []
    v = run_hypothesis(lambda scenario, schedule, second: check_ref_session(scenario, schedule, stats, second=second),
                       {'scenario': SE.SCENARIO(1, spec['max_boards'], spec['play_prob']), 'schedule': SE.SCHEDULE(),
                        'second': st.one_of(st.none(), st.none(), st.none(), st.none(), SE.SCENARIO(1, 2, 1))},
                       seed, spec['n'], tier == 'thorough')
    return [SE.reduce_violation(check_session, v)] if v else []


def replay(rec):
    return SE.replay('C09', rec)
