"""C09 - a session with four conforming clients always runs to completion (every schedule)."""
from hypothesis import strategies as st
from vf.common.core import Violation, run_hypothesis
from vf.model import auction as A
from vf.props import _session as SE

ID = 'C09'
LEVEL = 'exploration'
RULE = ('simulated sessions (DESIGN.md section 4): the unmodified Server with its four seat threads and four conforming '
        'clients run inside a schedule-owning kernel; the schedule is a generated input: preemption lists, sparse '
        'preemptions, PCT priorities with change points, uniformly random choices (seeded by a drawn integer), each '
        'optionally combined with up to 3 stalls (freeze main / one seat thread / one client from its k-th scheduling '
        'point for n steps or until nothing else can run), plus the sequential schedule; 1-3 boards (quick) / 1-6 '
        '(thorough) incl. all-passed-out and mixed lists, generated deals, legal auctions, plays (revokes included), '
        'client formatting and arrival order; in a quarter of the runs the four players are the bundled Client with generated legal policies. Oracle: the run ends completed - Server.run returned without exception, '
        'every seat thread finished without exception, every client read "End of session", the log is complete JSON '
        'holding every board; "no task enabled while one is unfinished" is a deadlock = violation (replay = scenario + '
        'explicit schedule trace). evaluations = sessions run. Non-trivial = completed run in which some enabled task '
        'was passed over for >= 50 consecutive steps (a real stall) under a non-sequential schedule; distinct by '
        '(scenario, trace) hash.')
ASSUMPTIONS = ['simulation kernel fidelity: CPython semantics of Event/Queue/Barrier, lossless ordered in-memory streams '
               '(DESIGN.md 4.3/4.5); liveness decided on finite runs under fair-in-the-limit schedules']


def plan(tier):
    n, per = (16, 220) if tier == 'quick' else (16, 6000)
    mb = 3 if tier == 'quick' else 6
    sh = [{'kind': 'sessions', 'n': per, 'max_boards': mb, 'play_prob': 3 if i % 4 else 1} for i in range(n)]
    nb, perb = (5, 100) if tier == 'quick' else (8, 3000)
    sh += [{'kind': 'bundled', 'n': perb, 'max_boards': mb} for _ in range(nb)]      # the bundled Client as the four players
    return sh


def check_ref_session(scenario, schedule, stats=None, **kw):
    r = SE.run_case(scenario, schedule)
    SE.first_problem(SE.completion_problems(scenario, r), scenario, schedule, r)
    if stats is not None:
        stats.evaluated()
        f = SE.scenario_features(scenario, schedule)
        for x in f:
            stats.cls(x)
        stats.cls(f'schedule kind {schedule["kind"]}')
        stats.cls('steps ' + ('<1000' if r.outcome.steps < 1000 else '<4000' if r.outcome.steps < 4000 else '>=4000'))
        if r.outcome.max_waited >= 50 and 'non-sequential schedule' in f:
            stats.cls('runs with a real stall (>=50 steps)')
            stats.nt([scenario, r.outcome.trace[:2000]],
                     {'scenario': SE.brief(scenario), 'schedule_kind': schedule['kind'], 'stalls': schedule.get('stalls'),
                      'steps': r.outcome.steps, 'max_waited': r.outcome.max_waited} if len(scenario['boards']) == 1 else None)
    return r


def check_session(scenario, schedule, stats=None, policy=None, **kw):
    if policy is not None:
        return SE.check_bundled(scenario, schedule, policy, stats)
    return check_ref_session(scenario, schedule, stats)


def run_shard(spec, seed, tier, stats):
    if spec['kind'] == 'bundled':
        v = run_hypothesis(lambda scenario, schedule, policy: SE.check_bundled(scenario, schedule, policy, stats),
                           {'scenario': SE.bundled_scenario(spec['max_boards']), 'schedule': SE.SCHEDULE(), 'policy': SE.POLICY},
                           seed, spec['n'], tier == 'thorough')
        return [v] if v else []
    v = run_hypothesis(lambda scenario, schedule: check_ref_session(scenario, schedule, stats),
                       {'scenario': SE.SCENARIO(1, spec['max_boards'], spec['play_prob']), 'schedule': SE.SCHEDULE()},
                       seed, spec['n'], tier == 'thorough')
    return [v] if v else []


def replay(rec):
    return SE.replay('C09', rec)
