"""C15 - card, call, contract, seat and vulnerability notations are exact inverses (complete domains)."""
from vf.common.core import Stats, Violation, check, guard, orders, fresh
from vf.common import be
from vf.model import auction as A, play as P

ID = 'C15'
LEVEL = 'exploration'
EXHAUSTIVE = True
RULE = ('complete enumeration of the finite domains: 52 cards (index, text, rank letters), 52x52 ordered card '
        'pairs for < <= > >= against index order, 38 calls (index, text, level+denomination), 4 seats (name, '
        'formal name, clockwise neighbours), 4 vulnerabilities x {str, PBN} and all 7 accepted spellings, '
        '5 denominations, and contracts 35 bids x 3 doubling states (both encodings of redoubled) x 4 '
        'vulnerabilities x 4 declarers + passed out (2 forms) x 4 vulnerabilities through str -> '
        'str_to_contract, the contract domain visited three times in different orders (as listed, reversed, strided by the seed) so that an answer depending on earlier calls is seen. Oracle: converter pairs compose to the identity, images are pairwise distinct, '
        'and every notation equals the independent model\'s (vf/model). Concurrent use: pairs of converter calls run as tasks of the schedule-owning kernel with a scheduling point at every source line of the value-object modules, on a freshly imported package per schedule; all schedules with <= 1 deviation from call-after-call execution are enumerated and each call must return what it returns alone. Every evaluated identity is counted '
        'once and is distinct by construction; non-trivial = all except the 52 reflexive card pairs.')
ASSUMPTIONS = ['enum members are looked up by name (Bid["C1"], Player["N"]) at the boundary']

SEED = [1]
RANK_TXT = {2: '2', 3: '3', 4: '4', 5: '5', 6: '6', 7: '7', 8: '8', 9: '9', 10: 'T', 11: 'J', 12: 'Q', 13: 'K', 14: 'A'}


def plan(tier):
    return [{'kind': k} for k in ('cards', 'card_pairs', 'calls', 'seats', 'vuls', 'contracts')] + \
        [{'kind': 'concurrent', 'shard': i, 'of': 8} for i in range(8)]


def _distinct(images, clause, what):
    seen = {}
    for k, v in images:
        if v in seen:
            raise Violation(clause, {'domain': what, 'values': [repr(seen[v]), repr(k)]}, {'shared notation': repr(v)})
        seen[v] = k


def _cards(stats, only=None):
    from bridge_env import Card, Suit
    ints, strs = [], []
    for i in range(52):
        if only is not None and i != only:
            continue
        case = {'card_index': i}
        c = guard('int_to_card raises', case, Card.int_to_card, i)
        check(c == be.CARD[i], 'int_to_card(i) is not the card of index i', case, {'got': repr(c)})
        check(c.rank == i % 13 + 2 and c.suit is be.SUIT[i // 13], 'int_to_card rank/suit', case, {'got': repr(c)})
        check(int(be.CARD[i]) == i, 'int(card) != index', case, {'got': int(be.CARD[i])})
        s = str(be.CARD[i])
        check(s == P.card_name(i), 'str(card) != suit letter + rank letter', case, {'got': s})
        back = guard('str_to_card raises', case, Card.str_to_card, fresh(s))
        check(back == be.CARD[i], 'str_to_card(str(card)) != card', case, {'got': repr(back)})
        check(int(back) == i, 'str and int notations disagree', case, {'got': int(back)})
        ints.append((i, int(c)))
        strs.append((i, s))
        stats.evaluated(6)
        for k in range(6):
            stats.nt(['card', i, k], case if k == 0 else None)
    if only is None:
        _distinct(ints, 'two cards share an index', 'card')
        _distinct(strs, 'two cards share a text', 'card')
        rs = []
        for r in range(2, 15):
            case = {'rank': r}
            t = guard('rank_int_to_str raises', case, Card.rank_int_to_str, r)
            check(t == RANK_TXT[r], 'rank letter', case, {'got': t})
            check(guard('rank_str_to_int raises', case, Card.rank_str_to_int, fresh(t)) == r, 'rank_str_to_int(rank_int_to_str(r)) != r', case)
            rs.append((r, t))
            stats.evaluated(2)
            stats.nt(['rank', r, 0]); stats.nt(['rank', r, 1])
        _distinct(rs, 'two ranks share a letter', 'rank')
        stats.cls('card identities', 52 * 6 + 26)


def _card_pairs(stats):
    import operator
    ops = [('<', operator.lt), ('<=', operator.le), ('>', operator.gt), ('>=', operator.ge), ('==', operator.eq)]
    for i in range(52):
        for j in range(52):
            a, b = be.CARD[i], be.CARD[j]
            for name, op in ops:
                case = {'a': P.card_name(i), 'b': P.card_name(j), 'op': name}
                got = guard('card comparison raises', case, op, a, b)
                check(got is op(i, j), 'card order disagrees with card index', case, {'got': got})
            stats.evaluated()
            if i != j:
                stats.nt(['pair', i, j], {'a': P.card_name(i), 'b': P.card_name(j)} if (i, j) in ((12, 13), (51, 0)) else None)
    stats.cls('ordered card pairs x 5 comparisons', 52 * 52)


def _calls(stats):
    from bridge_env import Bid, Suit
    idxs, strs = [], []
    for i in range(38):
        case = {'call_index': i, 'call': A.call_name(i)}
        b = be.BID[i]
        got = guard('int_to_bid raises', case, Bid.int_to_bid, i)
        check(got is b, 'int_to_bid(i) is not call i', case, {'got': repr(got)})
        check(b.idx == i, 'idx != index', case, {'got': b.idx})
        s = str(b)
        check(s == A.call_name(i), 'str(call) != level+denomination text', case, {'got': s})
        check(guard('str_to_bid raises', case, Bid.str_to_bid, fresh(s)) is b, 'str_to_bid(str(call)) != call', case)
        if i < 35:
            check(b.level == i // 5 + 1 and b.suit is be.SUIT[i % 5], 'level/suit of a bid', case,
                  {'level': b.level, 'suit': repr(b.suit)})
            got = guard('level_suit_to_bid raises', case, Bid.level_suit_to_bid, b.level, b.suit)
            check(got is b, 'level_suit_to_bid(level, suit) != bid', case, {'got': repr(got)})
        else:
            check(b.level is None and b.suit is None, 'Pass/X/XX have a level or suit', case)
        idxs.append((i, b.idx)); strs.append((i, s))
        stats.evaluated(6)
        for k in range(6):
            stats.nt(['call', i, k], case if k == 0 and i in (0, 34, 36) else None)
    _distinct(idxs, 'two calls share an index', 'call')
    _distinct(strs, 'two calls share a text', 'call')
    for k, su in enumerate(be.SUIT):
        case = {'denomination': A.STRAINS[k]}
        check(str(su) == A.STRAINS[k] and Suit[str(su)] is su, 'denomination text', case, {'got': str(su)})
        stats.evaluated(); stats.nt(['suit', k])
    stats.cls('call identities', 38 * 6 + 5)


def _seats(stats):
    from bridge_env import Player, Pair
    names, formals = [], []
    for i in range(4):
        p = be.SEAT[i]
        case = {'seat': A.SEATS[i]}
        check(str(p) == A.SEATS[i] and Player[str(p)] is p, 'seat short name', case, {'got': str(p)})
        check(p.formal_name == be.FORMAL[i], 'formal name', case, {'got': p.formal_name})
        check(guard('convert_formal_name raises', case, Player.convert_formal_name, fresh(p.formal_name)) is p,
              'convert_formal_name(formal_name) != seat', case)
        check(p.left is be.SEAT[(i + 1) % 4] and p.next_player is be.SEAT[(i + 1) % 4], 'left/next is not clockwise', case)
        check(p.right is be.SEAT[(i + 3) % 4], 'right is not anticlockwise', case)
        check(p.partner is be.SEAT[(i + 2) % 4], 'partner is not opposite', case)
        check(p.pair is be.PAIR[i % 2] and p.opponent_pair is be.PAIR[1 - i % 2], 'pair of seat', case)
        for j in range(4):
            check(p.is_partner(be.SEAT[j]) is ((i - j) % 2 == 0), 'is_partner', {'seat': A.SEATS[i], 'other': A.SEATS[j]})
        names.append((i, str(p))); formals.append((i, p.formal_name))
        stats.evaluated(8)
        for k in range(8):
            stats.nt(['seat', i, k], case if k == 0 else None)
    _distinct(names, 'two seats share a name', 'seat')
    _distinct(formals, 'two seats share a formal name', 'seat')
    for k, pr in enumerate(be.PAIR):
        check(str(pr) == ('NS', 'EW')[k] and pr.opponent_pair is be.PAIR[1 - k], 'pair text/opponent', {'pair': k})
        stats.evaluated(); stats.nt(['pair', k])
    stats.cls('seat identities', 34)


def _vuls(stats):
    from bridge_env import Vul
    spell = {'None': 'None', 'Love': 'None', '-': 'None', 'NS': 'NS', 'EW': 'EW', 'Both': 'Both', 'All': 'Both'}
    pbn = {'None': 'None', 'NS': 'NS', 'EW': 'EW', 'Both': 'All'}
    a, b = [], []
    for vn in be.VUL_NAMES:
        v = be.VUL[vn]
        case = {'vul': vn}
        check(str(v) == vn, 'str(vul)', case, {'got': str(v)})
        check(v.pbn_format() == pbn[vn], 'pbn_format(vul)', case, {'got': v.pbn_format()})
        check(guard('str_to_vul raises', case, Vul.str_to_vul, fresh(str(v))) is v, 'str_to_vul(str(v)) != v', case)
        check(guard('str_to_vul raises', case, Vul.str_to_vul, fresh(v.pbn_format())) is v, 'str_to_vul(pbn_format(v)) != v', case)
        a.append((vn, str(v))); b.append((vn, v.pbn_format()))
        stats.evaluated(4)
        for k in range(4):
            stats.nt(['vul', vn, k], case if k == 0 else None)
        for s in range(4):
            for bv in (vn,):
                exp = bv == 'Both' or (bv == 'NS' and s % 2 == 0) or (bv == 'EW' and s % 2 == 1)
                check(be.SEAT[s].is_vul(v) is exp, 'seat vulnerability', {'vul': vn, 'seat': A.SEATS[s]})
                stats.evaluated(); stats.nt(['isvul', vn, s])
    _distinct(a, 'two vulnerabilities share a text', 'vul')
    _distinct(b, 'two vulnerabilities share a PBN text', 'vul')
    for s, vn in spell.items():
        case = {'spelling': s}
        check(guard('str_to_vul raises', case, Vul.str_to_vul, fresh(s)) is be.VUL[vn], 'accepted spelling maps to wrong vulnerability', case)
        stats.evaluated(); stats.nt(['spelling', s], case)
    stats.cls('vulnerability identities', 16 + 16 + 7)


def _contract(bid, dbl, enc, vn, decl, stats=None):
    from bridge_env import Contract
    case = {'bid': A.call_name(bid), 'dbl': dbl, 'xx_encoding': enc, 'vul': vn, 'declarer': A.SEATS[decl]}
    x = dbl >= 1 if enc == 0 else dbl == 1
    c = Contract(final_bid=be.BID[bid], x=x, xx=dbl == 2, vul=be.VUL[vn], declarer=be.SEAT[decl])
    text = str(c)
    check(text == A.call_name(bid) + ('', 'X', 'XX')[dbl], 'contract text', case, {'got': text})
    back = guard('str_to_contract raises', case, Contract.str_to_contract, fresh(text), be.VUL[vn], be.SEAT[decl])
    ok = (back.level == bid // 5 + 1 and back.trump is be.SUIT[bid % 5] and back.vul is be.VUL[vn]
          and back.declarer is be.SEAT[decl] and be.dbl_status(back) == dbl and not back.is_passed_out())
    check(ok, 'contract text does not parse back to the same contract', case, {'got': repr(back)})
    if decl == (bid + dbl) % 4:
        # a contract that came out of the parser is a contract like any other: contracts derived from it (another bid and
        # doubling by dataclasses.replace, a copy, a pickle round trip) have the text of THEIR values and parse back to them
        import copy
        import dataclasses
        import pickle
        nb, ndbl = (bid * 7 + 3 + decl) % 35, (dbl + 1 + decl % 2) % 3
        for what, mk, eb, ed in (('dataclasses.replace(final_bid, x, xx) on a parsed contract', lambda: dataclasses.replace(back, final_bid=be.BID[nb], x=ndbl >= 1, xx=ndbl == 2), nb, ndbl),
                                 ('dataclasses.replace(x, xx) on a parsed contract', lambda: dataclasses.replace(back, x=ndbl >= 1, xx=ndbl == 2), bid, ndbl),
                                 ('copy.copy of a parsed contract', lambda: copy.copy(back), bid, dbl),
                                 ('pickle round trip of a parsed contract', lambda: pickle.loads(pickle.dumps(back)), bid, dbl)):
            if what.startswith('dataclasses.replace') and not dataclasses.is_dataclass(back):
                continue          # replace() applies to dataclasses only; nothing says a contract must be one
            dcase = dict(case, derived_by=what)
            d = guard('deriving a contract raises', dcase, mk)
            t2 = str(d)
            check(t2 == A.call_name(eb) + ('', 'X', 'XX')[ed], 'text of a derived contract is not the text of its values', dcase, {'got': t2})
            b2 = guard('str_to_contract raises', dcase, Contract.str_to_contract, fresh(t2), d.vul, d.declarer)
            check(b2.level == eb // 5 + 1 and b2.trump is be.SUIT[eb % 5] and be.dbl_status(b2) == ed and b2.vul is be.VUL[vn] and b2.declarer is be.SEAT[decl],
                  'text of a derived contract does not parse back to it', dcase, {'got': repr(b2)})
            if stats is not None:
                stats.evaluated()
    if decl == 0:
        # the declarer is an optional argument of the parser
        nd = guard('str_to_contract raises without a declarer', case, Contract.str_to_contract, fresh(text), be.VUL[vn])
        check(nd.level == bid // 5 + 1 and nd.trump is be.SUIT[bid % 5] and nd.vul is be.VUL[vn] and nd.declarer is None and be.dbl_status(nd) == dbl,
              'contract text parsed without a declarer is not the same contract', case, {'got': repr(nd)})
    check(c.level == bid // 5 + 1 and c.trump is be.SUIT[bid % 5] and c.necessary_tricks() == bid // 5 + 7,
          'contract level/trump/necessary tricks', case)
    if stats is not None:
        stats.evaluated()
        stats.nt(case, case if (bid, vn, decl) == (17, 'EW', 3) else None)


def _contracts(stats):
    from bridge_env import Contract, Bid
    texts = {}
    domain = []
    for bid in range(35):
        for dbl in range(3):
            for enc in ((0, 1) if dbl == 2 else (0,)):
                for vn in be.VUL_NAMES:
                    for decl in range(4):
                        domain.append((bid, dbl, enc, vn, decl))
            texts.setdefault(A.call_name(bid) + ('', 'X', 'XX')[dbl], (bid, dbl))
    # the complete domain in three orders: an answer must not depend on which texts were parsed before
    for name, items in orders(domain, SEED[0]):
        for t in items:
            _contract(*t, stats=stats)
        stats.cls(f'contract domain pass ({name} order)')
    check(len(texts) == 105, 'two contracts share a text', {'n': len(texts)})
    for form in (None, 'Pass'):
        for vn in be.VUL_NAMES:
            case = {'passed_out_form': str(form), 'vul': vn}
            c = Contract(final_bid=None if form is None else Bid['Pass'], vul=be.VUL[vn])
            check(c.is_passed_out() and c.level is None and c.trump is None, 'passed-out contract', case)
            back = guard('str_to_contract raises', case, Contract.str_to_contract, fresh(str(c)), be.VUL[vn], None)
            check(back.is_passed_out() and back.vul is be.VUL[vn] and back.declarer is None and be.dbl_status(back) == 0,
                  'passed-out text does not parse back', case, {'got': repr(back)})
            check(str(c) not in texts, 'passed-out text collides with a contract', case)
            stats.evaluated(); stats.nt(case, case)
    stats.cls('contract round trips', 35 * 4 * 16 + 8)


# ---------------------------------------------------------------------------------------
# concurrent use (line-level schedules, vf/props/_concurrent.py)

def _p_calls(B):
    return [lambda: [B.Bid.str_to_bid(t).name for t in ('3NT', 'Pass', 'XX')] + [B.Bid.int_to_bid(7).name],
            lambda: [B.Bid.str_to_bid(t).name for t in ('X', '1C', '7NT')] + [B.Bid.level_suit_to_bid(2, B.Suit.H).name]]


def _p_cards(B):
    return [lambda: [str(B.Card.str_to_card(t)) for t in ('SA', 'C2')] + [int(B.Card.int_to_card(17))],
            lambda: [str(B.Card.str_to_card(t)) for t in ('HT', 'D9')] + [B.Card.rank_int_to_str(10), B.Card.rank_str_to_int('J')]]


def _p_contracts(B):
    def show(c):
        return (str(c), c.vul.name, None if c.declarer is None else c.declarer.name, bool(c.x), bool(c.xx), c.is_passed_out())
    return [lambda: [show(B.Contract.str_to_contract('4SX', B.Vul.NS, B.Player.E)), show(B.Contract.str_to_contract('4S', B.Vul.NS, B.Player.E))],
            lambda: [show(B.Contract.str_to_contract('4S', B.Vul.EW, B.Player.N)), show(B.Contract.str_to_contract('7NTXX', B.Vul.BOTH, B.Player.W)),
                     show(B.Contract.str_to_contract(str(B.Contract(None, vul=B.Vul.NONE)), B.Vul.NONE, None))]]


def _p_names(B):
    return [lambda: [B.Vul.str_to_vul(t).name for t in ('All', 'None', 'Love')] + [B.Player.convert_formal_name('West').name],
            lambda: [B.Vul.str_to_vul(t).name for t in ('-', 'EW', 'Both')] + [B.Player.convert_formal_name('North').name, B.Player.S.formal_name]]


def concurrent_programs():
    from vf.props import _concurrent as CC
    tr = tuple(f'/bridge_env/{m}.py' for m in ('bid', 'card', 'contract', 'vul', 'player', 'suit', 'pair'))
    return {'call converters': (_p_calls, CC.same_as_alone, tr), 'card converters': (_p_cards, CC.same_as_alone, tr),
            'contract texts': (_p_contracts, CC.same_as_alone, tr), 'seat and vulnerability names': (_p_names, CC.same_as_alone, tr)}


def run_concurrent(spec, stats):
    from vf.props import _concurrent as CC
    try:
        for name, (prog, oracle, tr) in concurrent_programs().items():
            CC.explore(name, prog, oracle, stats, bound=1, orders=(0, 1), trace=tr, shard=spec['shard'], of=spec['of'])
    except Violation as v:
        return [v]
    return []


def run_shard(spec, seed, tier, stats):
    if spec['kind'] == 'concurrent':
        return run_concurrent(spec, stats)
    SEED[0] = seed // 1000
    fn = {'cards': _cards, 'card_pairs': _card_pairs, 'calls': _calls, 'seats': _seats, 'vuls': _vuls,
          'contracts': _contracts}[spec['kind']]
    try:
        fn(stats)
        be.stir(seed)            # ... nor on what else the process did (random deals, an auction, plays, scoring, the formats)
        if spec['kind'] != 'contracts':
            fn(Stats())          # second pass in the same process: converters must not depend on earlier calls
        else:
            for t in [(b_, d_, 0, 'NS', 1) for b_ in range(35) for d_ in range(3)]:
                _contract(*t, stats=None)
    except Violation as v:
        v.case = {'domain': spec['kind'], 'case': v.case}
        return [v]
    return []


def replay(rec):
    from vf.common.core import Stats
    if 'concurrent_program' in rec['case']:
        from vf.props import _concurrent as CC
        return CC.replay(rec, concurrent_programs())
    try:
        {'cards': _cards, 'card_pairs': _card_pairs, 'calls': _calls, 'seats': _seats, 'vuls': _vuls,
         'contracts': _contracts}[rec['case']['domain']](Stats())
    except Violation as v:
        return v
    return None
