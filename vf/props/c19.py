"""C19 - protocol messages mean the same to both ends and framing always terminates.
(a) pure builder -> parser round trips; (b) messages built inside the server (board header, Teams line) taken
from simulated sessions; (c) framing over a scripted socket with generated chunking and end-of-stream."""
from hypothesis import strategies as st
from vf.common.core import Violation, check, guard, run_hypothesis
from vf.common import be
from vf.model import auction as A, play as P
from vf.props import _play as PL

import io

ID = 'C19'
USES_SIM = True
LEVEL = 'exploration'
RULE = ('(a) Server.hand_to_str -> Client.parse_cards/parse_hand for Hypothesis hands of 0-13 cards (biased to voids) under '
        'every seat name and "Dummy"; Client.create_bid_message for all 38 calls x 4 seats x case variants (as built, lower, '
        'upper, drawn per-character mask) x alert suffix (" Alert." in any case with 0-3 trailing blanks) through the '
        'server\'s path (remove_alert_word iff "alert" occurs, then parse_bid) and the client\'s parse_bid; all 52 cards x '
        '4 seats x 2 notations x case variants through parse_card - enumerated completely, masks drawn. (b) board headers '
        'and Teams lines as built by the running server in simulated one-board sessions with generated board numbers, '
        'dealers, vulnerabilities and team names (any Unicode without ", CR, LF) through Client.parse_board / '
        'parse_team_names. (c) MessageInterface.receive_message on a scripted socket delivering 0-6 generated messages '
        '(any Unicode without CR/LF) in a generated chunking (recv(n) returns <= n bytes of the current chunk) followed by '
        'end-of-stream at a generated position (between messages, inside one, after CR): messages must arrive intact and in '
        'order and the receiver must raise within 1000 empty reads instead of returning or spinning; send_message must '
        'emit utf-8(message)+CRLF. Non-trivial = hand with a void; call with alert and non-default case; stream with a '
        'chunk boundary inside a multi-byte character or between CR and LF; end-of-stream inside a message; a server-built '
        'header/Teams line with a non-ASCII or blank-containing team name. Distinct by case.')
ASSUMPTIONS = ['the alert suffix is " Alert." (any case, optional trailing blanks) as in the repository\'s own tests; free '
               'explanation text after it is outside the domain (DESIGN.md N1)']


class Spin(BaseException):
    """The receiver kept reading after end-of-stream."""


class _Raw(io.RawIOBase):
    """File view of a socket-like object (what socket.makefile() builds on), so that a receiver written with a buffered
    reader meets the same scripted stream and the same end-of-stream accounting."""

    def __init__(self, sock):
        self._sock = sock

    def readable(self):
        return True

    def writable(self):
        return True

    def readinto(self, b):
        d = self._sock.recv(len(b))
        b[:len(d)] = d
        return len(d)

    def write(self, b):
        self._sock.sendall(bytes(b))
        return len(b)


class _SocketLike:
    """The parts of the socket API a line receiver may reasonably use, on top of self._recv(n) / self._send(data)."""
    empty_reads = 0

    def _count(self, d):
        if d == b'':
            self.empty_reads += 1
            if self.empty_reads >= 1000:
                raise Spin()
        return d

    def recv(self, n, flags=0):
        return self._count(self._recv(n))

    def recv_into(self, buf, nbytes=0, flags=0):
        d = self.recv(nbytes or len(buf))
        buf[:len(d)] = d
        return len(d)

    def makefile(self, mode='r', buffering=None, *, encoding=None, errors=None, newline=None):
        raw = _Raw(self)
        if buffering == 0:
            return raw
        f = io.BufferedRWPair(raw, raw) if ('r' in mode and 'w' in mode) else io.BufferedWriter(raw) if 'w' in mode else io.BufferedReader(raw)
        return f if 'b' in mode else io.TextIOWrapper(f, encoding=encoding, errors=errors, newline=newline)

    def sendall(self, data, flags=0):
        self._send(bytes(data))

    def send(self, data, flags=0):
        self._send(bytes(data))
        return len(data)

    def settimeout(self, t):
        pass

    def gettimeout(self):
        return None

    def setblocking(self, flag):
        pass

    def setsockopt(self, *a):
        pass

    def shutdown(self, how):
        pass

    def close(self):
        pass


class ScriptedSocket(_SocketLike):
    def __init__(self, chunks):
        self.chunks = [bytes(c) for c in chunks if c]
        self.sent = []

    def _recv(self, n):
        if not self.chunks:
            return b''
        c = self.chunks[0]
        out, rest = c[:n], c[n:]
        if rest:
            self.chunks[0] = rest
        else:
            self.chunks.pop(0)
        return out

    def _send(self, data):
        self.sent.append(data)


class RealPairSocket(_SocketLike):
    """One end of a REAL socket.socketpair(); the chunks are written to the other end by a sender thread with a short pause
    after each, then that end is closed.  Reads go to the real socket and block like real reads (no wall-clock limit decides anything: the sender always ends by closing its end; a receiver stuck for good is left to the shard watchdog = exit 2)."""

    def __init__(self, chunks):
        import socket
        import threading
        import time
        self._a, self._b = socket.socketpair()
        self.sent = []

        def feed():
            try:
                for c in chunks:
                    if c:
                        self._a.sendall(c)
                        time.sleep(0.0003)
            finally:
                self._a.close()
        self._t = threading.Thread(target=feed, daemon=True)
        self._t.start()

    def _recv(self, n):
        return self._b.recv(n)

    def _send(self, data):
        self.sent.append(data)

    def close(self):
        self._t.join(5)
        self._b.close()


def plan(tier):
    sh = [{'kind': 'calls'}, {'kind': 'cards'}]
    n, per = (4, 6000) if tier == 'quick' else (6, 60000)
    sh += [{'kind': 'hands', 'n': per} for _ in range(n)]
    sh += [{'kind': 'masks', 'n': per} for _ in range(2)]
    n, per = (6, 4000) if tier == 'quick' else (8, 40000)
    sh += [{'kind': 'framing', 'n': per} for _ in range(n)]
    if tier == 'thorough':       # coverage-guided campaigns on the same tests (atheris), own seed and corpus each
        sh += [{'kind': 'fuzz', 'target': 'framing', 'runs': 100000} for _ in range(4)] + [{'kind': 'fuzz', 'target': 'hands', 'runs': 60000}, {'kind': 'fuzz', 'target': 'masks', 'runs': 60000}]
    from vf.props import _session
    return sh + _session.plan_c19(tier)


# ---- (a) ---------------------------------------------------------------------------------

def apply_mask(s, mask):
    out = []
    for i, ch in enumerate(s):
        out.append(ch.upper() if (mask >> (i % 60)) & 1 else ch.lower())
    return ''.join(out)


def case_variants(s):
    from vf.common.core import fresh
    return [('as built', fresh(s)), ('lower', s.lower()), ('upper', s.upper())]


def check_hand(cards, who, stats=None):
    from bridge_env.network_bridge.server import Server
    from bridge_env.network_bridge.client import Client
    case = {'hand': PL.fmt_cards(sorted(cards)), 'name': who}
    text = guard('hand_to_str raises', case, Server.hand_to_str, {be.CARD[c] for c in cards})
    msg = f"{who}'s cards : {text}"
    body = guard('parse_cards raises on a server-built hand message', case, Client.parse_cards, msg, who)
    hs, hv = guard('parse_hand raises on a server-built hand', case, Client.parse_hand, body)
    got = sorted(be.CARD_IDX[c] for c in hs)
    check(got == sorted(cards), 'hand message is understood as a different hand', dict(case, message=msg), {'got': PL.fmt_cards(got)})
    check(list(hv) == [1 if c in cards else 0 for c in range(52)], 'hand vector does not match the hand', dict(case, message=msg))
    # the client hands the parsed set to its playing phase, which removes the cards as they are played: the same
    # message parsed again (next board, another client in the process) must still mean the original hand
    for c in sorted(cards)[:3]:
        hs.discard(be.CARD[c])
    hs.add(be.CARD[next(c for c in range(52) if c not in cards)] if len(cards) < 52 else be.CARD[0])
    hs2, hv2 = guard('parse_hand raises on a server-built hand', case, Client.parse_hand, body)
    got2 = sorted(be.CARD_IDX[c] for c in hs2)
    check(got2 == sorted(cards) and list(hv2) == [1 if c in cards else 0 for c in range(52)],
          'the same hand message is understood differently the second time (after the first result was used)',
          dict(case, message=msg), {'got': PL.fmt_cards(got2)})
    if stats is not None:
        stats.evaluated()
        suits = {c // 13 for c in cards}
        if len(suits) < 4:
            stats.cls('hand with a void' if cards else 'empty hand')
            stats.nt(['hand', sorted(cards), who], dict(case, message=msg) if len(cards) == 13 and len(suits) == 2 else None)
        else:
            stats.cls('hand without void')


def server_parse_bid(msg, formal):
    """The path a call takes in Server.bidding_phase."""
    from bridge_env.network_bridge.server import Server
    from bridge_env.network_bridge.socket_interface import MessageInterface
    if 'alert' in msg.lower():
        msg = Server.remove_alert_word(msg)
    return MessageInterface.parse_bid(msg, formal), msg


def check_call(call, seat, variant, alert, stats=None, mask=None):
    from bridge_env.network_bridge.client import Client
    from bridge_env.network_bridge.socket_interface import MessageInterface
    formal = be.FORMAL[seat]
    built = guard('create_bid_message raises', {'call': A.call_name(call), 'seat': formal}, Client.create_bid_message, be.BID[call], formal)
    msg = built if mask is None else apply_mask(built, mask)
    if mask is None:
        msg = dict(case_variants(built))[variant]
    if alert is not None:
        msg = msg + alert
    case = {'call': A.call_name(call), 'seat': formal, 'message': msg}
    got, relayed = guard('server cannot parse a call message built by the client', case, server_parse_bid, msg, formal)
    check(got is be.BID[call], 'server understands a call message as a different call', case, {'got': repr(got)})
    # what the server relays is what the other clients parse
    got2 = guard('client cannot parse the relayed call message', dict(case, relayed=relayed), MessageInterface.parse_bid, relayed, formal)
    check(got2 is be.BID[call], 'client understands the relayed call as a different call', dict(case, relayed=relayed), {'got': repr(got2)})
    if stats is not None:
        stats.evaluated()
        if alert is not None and msg[:len(built)] != built:
            stats.cls('call with alert and non-default case')
            stats.nt(['call', msg, seat], case if call in (4, 36) else None)
        elif alert is not None:
            stats.cls('call with alert')
        else:
            stats.cls('call without alert')


ALERTS = [None, ' Alert.', ' alert.', ' ALERT.', ' Alert. ', '  Alert.  ', ' aLeRt.   ']


def check_card(card, seat, notation, variant, stats=None, mask=None):
    from bridge_env.network_bridge.client import Client
    from bridge_env.network_bridge.socket_interface import MessageInterface
    formal = be.FORMAL[seat]
    txt = Client.card_str(be.CARD[card]) if notation == 'rank-suit' else str(be.CARD[card])
    built = f'{formal} plays {txt}'
    msg = apply_mask(built, mask) if mask is not None else dict(case_variants(built))[variant]
    case = {'card': P.card_name(card), 'seat': formal, 'notation': notation, 'message': msg}
    got = guard('parse_card raises on a card message built by the client', case, MessageInterface.parse_card, msg, be.SEAT[seat])
    check(got == be.CARD[card], 'card message is understood as a different card', case, {'got': str(got)})
    if stats is not None:
        stats.evaluated()
        stats.cls(f'card {notation}')
        if msg != built:
            stats.nt(['card', msg])


# ---- (c) ---------------------------------------------------------------------------------

def check_framing(messages, cuts, eof, stats=None, real=False):
    """messages: list of str; cuts: sorted byte offsets where the stream is split into chunks;
    eof: ('between', k) after k whole messages | ('inside', k, j) after j bytes of message k | ('after_cr', k)"""
    from bridge_env.network_bridge.socket_interface import MessageInterface
    enc = [m.encode('utf-8') + b'\r\n' for m in messages]
    kind, k = eof[0], min(eof[1], len(messages) - 1 if eof[0] != 'between' else len(messages))
    if kind != 'between' and not messages:
        kind, k = 'between', 0
    if kind == 'between':
        stream = b''.join(enc[:k]); whole = k
    elif kind == 'inside':
        body = enc[k][:-2]
        j = eof[2] % (len(body) + 1)
        stream = b''.join(enc[:k]) + body[:j]; whole = k
        if j == 0 and len(body) == 0:
            kind = 'between'
    else:
        stream = b''.join(enc[:k]) + enc[k][:-1]; whole = k
    cs = sorted({c % (len(stream) + 1) for c in cuts} | {0, len(stream)})
    chunks = [stream[a:b] for a, b in zip(cs, cs[1:])]
    case = {'messages': messages, 'chunks': [c.hex() for c in chunks], 'eof': [kind, k] + list(eof[2:3])}
    real = real and len(chunks) <= 8
    for sock in [ScriptedSocket(chunks)] + ([RealPairSocket(chunks)] if real else []):
        try:
            _receive_all(MessageInterface, sock, messages, whole, kind, dict(case, socket='real socketpair') if isinstance(sock, RealPairSocket) else case)
        finally:
            sock.close()
    _framing_stats(stats, enc, cs, kind, case, messages, stream, real)


def _receive_all(MessageInterface, sock, messages, whole, kind, case):
    mi = MessageInterface(sock)
    for i in range(whole):
        try:
            got = mi.receive_message()
        except Spin:
            raise Violation('receiver spins forever at end-of-stream', case, {'while_reading_message': i})
        except Exception as e:
            raise Violation('receive_message raises on an intact message', case, {'message_index': i, 'exception': repr(e)[:200]})
        check(got == messages[i], 'message not received intact / in order', case, {'index': i, 'got': got})
    # now the stream ends: the receiver must stop with an error
    try:
        got = mi.receive_message()
    except Spin:
        raise Violation('receiver spins forever at end-of-stream', case, {'eof': kind})
    except Exception:
        pass
    else:
        raise Violation('receiver returned a message although the stream ended first', case, {'got': got, 'eof': kind})


def _framing_stats(stats, enc, cs, kind, case, messages, stream, real):
    if stats is not None:
        stats.evaluated()
        stats.cls(f'end-of-stream {kind}')
        if real:
            stats.cls('streams also delivered over a real socketpair by a sender thread')
        split_multibyte = False
        pos = 0
        bounds = set(cs[1:-1])
        for e in enc:
            # boundaries inside a multi-byte character or between CR and LF
            for off in range(1, len(e)):
                if pos + off in bounds:
                    if off == len(e) - 1:
                        split_multibyte = True
                        stats.cls('chunk boundary between CR and LF')
                    elif off < len(e) - 2 and (e[off] & 0xC0) == 0x80:
                        split_multibyte = True
                        stats.cls('chunk boundary inside a multi-byte character')
            pos += len(e)
        if split_multibyte or kind == 'inside':
            stats.nt(['fr', case['chunks'], kind], case if len(messages) == 2 and len(stream) < 40 else None)


def check_send(message, stats=None):
    from bridge_env.network_bridge.socket_interface import MessageInterface
    sock = ScriptedSocket([])
    guard('send_message raises', {'send': message}, MessageInterface(sock).send_message, message)
    check(b''.join(sock.sent) == message.encode('utf-8') + b'\r\n', 'send_message does not emit utf-8(message)+CRLF',
          {'send': message}, {'sent': b''.join(sock.sent).hex()})
    if stats is not None:
        stats.evaluated()


MSG = st.text(alphabet=st.characters(blacklist_characters='\r\n', blacklist_categories=('Cs',)), max_size=20)
EOF_POS = st.one_of(st.tuples(st.just('between'), st.integers(0, 6)),
                    st.tuples(st.just('inside'), st.integers(0, 5), st.integers(0, 60)),
                    st.tuples(st.just('after_cr'), st.integers(0, 5)))


def fuzz_target(k, stats):
    """(test function, strategies) - shared by the in-process Hypothesis tier and the atheris tier."""
    if k == 'hands':
        hand = st.one_of(st.sets(st.integers(0, 51), max_size=13),
                         st.tuples(st.sets(st.integers(0, 3), min_size=1, max_size=3), st.sets(st.integers(0, 51), max_size=13))
                         .map(lambda t: {c for c in t[1] if c // 13 in t[0]}))
        return (lambda cards, who: check_hand(set(cards), who, stats), {'cards': hand, 'who': st.sampled_from(be.FORMAL + ['Dummy'])})
    if k == 'masks':
        def t(call, seat, alert, card, notation, mask):
            check_call(call, seat, None, alert, stats, mask=mask)
            check_card(card, seat, notation, None, stats, mask=mask)
        return (t, {'call': st.integers(0, 37), 'seat': st.integers(0, 3), 'alert': st.sampled_from(ALERTS),
                    'card': st.integers(0, 51), 'notation': st.sampled_from(['rank-suit', 'suit-rank']),
                    'mask': st.integers(0, 2 ** 60 - 1)})

    def t(messages, cuts, eof, send, real):
        check_framing(messages, cuts, eof, stats, real=(real == 0))
        check_send(send, stats)
    return (t, {'messages': st.lists(MSG, max_size=6), 'cuts': st.lists(st.integers(0, 400), max_size=12), 'eof': EOF_POS, 'send': MSG,
                'real': st.integers(0, 24)})


def run_shard(spec, seed, tier, stats):
    shrink = tier == 'thorough'
    k = spec['kind']
    fails = {}
    if k == 'calls':
        for call in range(38):
            for seat in range(4):
                for variant in ('as built', 'lower', 'upper'):
                    for alert in ALERTS:
                        try:
                            check_call(call, seat, variant, alert, stats)
                        except Violation as v:
                            fails.setdefault(v.clause, v)
        return list(fails.values())
    if k == 'cards':
        for card in range(52):
            for seat in range(4):
                for notation in ('rank-suit', 'suit-rank'):
                    for variant in ('as built', 'lower', 'upper'):
                        try:
                            check_card(card, seat, notation, variant, stats)
                        except Violation as v:
                            fails.setdefault(v.clause, v)
        return list(fails.values())
    if k == 'fuzz':
        from vf.common.fuzz import run_fuzz_shard
        return run_fuzz_shard(ID, spec, seed, stats)
    if k in ('hands', 'masks', 'framing'):
        fn, strategies = fuzz_target(k, stats)
        v = run_hypothesis(fn, strategies, seed, spec['n'], shrink)
        return [v] if v else []
    from vf.props import _session
    return _session.run_shard_c19(spec, seed, tier, stats)


def check_session(scenario, schedule, stats=None, **kw):
    from vf.props import _session
    if kw.get('policy') is not None:
        return _session.check_handshake(scenario, schedule, stats)
    if any(b['calls'] != [A.PASS] * 4 or b['cards'] for b in scenario['boards']):
        return _session.check_relayed(scenario, schedule, stats)
    return _session.check_server_built(scenario, schedule, stats)


def replay(rec):
    c = rec['case']
    try:
        if 'scenario' in c:
            from vf.props import _session
            return _session.replay('C19', rec)
        if 'chunks' in c:
            # explicit byte chunks + expected messages
            from bridge_env.network_bridge.socket_interface import MessageInterface
            chunks = [bytes.fromhex(x) for x in c['chunks']]
            stream = b''.join(chunks)
            msgs = c['messages']
            whole = c['eof'][1]
            sock = ScriptedSocket(chunks)
            mi = MessageInterface(sock)
            for i in range(whole):
                try:
                    got = mi.receive_message()
                except Spin:
                    raise Violation('receiver spins forever at end-of-stream', c, {'while_reading_message': i})
                check(got == msgs[i], 'message not received intact / in order', c, {'index': i, 'got': got})
            try:
                got = mi.receive_message()
            except Spin:
                raise Violation('receiver spins forever at end-of-stream', c, {'eof': c['eof'][0]})
            except Exception:
                return None
            raise Violation('receiver returned a message although the stream ended first', c, {'got': got})
        if 'hand' in c:
            names = [P.card_name(i) for i in range(52)]
            check_hand({names.index(x) for x in c['hand']}, c['name'])
        elif 'call' in c:
            from bridge_env.network_bridge.socket_interface import MessageInterface
            call = [A.call_name(i) for i in range(38)].index(c['call'])
            got, relayed = guard('server cannot parse a call message built by the client', c, server_parse_bid, c['message'], c['seat'])
            check(got is be.BID[call], 'server understands a call message as a different call', c, {'got': repr(got)})
            got2 = guard('client cannot parse the relayed call message', c, MessageInterface.parse_bid, relayed, c['seat'])
            check(got2 is be.BID[call], 'client understands the relayed call as a different call', c)
        elif 'card' in c:
            from bridge_env.network_bridge.socket_interface import MessageInterface
            card = [P.card_name(i) for i in range(52)].index(c['card'])
            got = guard('parse_card raises on a card message built by the client', c, MessageInterface.parse_card, c['message'],
                        be.SEAT[be.FORMAL.index(c['seat'])])
            check(got == be.CARD[card], 'card message is understood as a different card', c, {'got': str(got)})
        elif 'send' in c:
            check_send(c['send'])
    except Violation as v:
        return v
    return None
