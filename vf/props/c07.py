"""C07 - every contract and result scores what the duplicate table says (complete domain)."""
from vf.common.core import Violation, check, guard, orders
from vf.common import be
from vf.model import score as S, auction as A

ID = 'C07'
LEVEL = 'exploration'
EXHAUSTIVE = True
RULE = ('complete enumeration: 35 bids x {undoubled,X,XX} x 4 board vulnerabilities x 4 declarers x '
        '14 trick counts through calc_score(Contract, tricks) (23520 cells), the same grid through '
        'calc_bid_score with the side-vulnerability flag, and both passed-out contract forms x 4 '
        'vulnerabilities x 14 trick counts; the whole grid is visited three times in different orders (as listed, reversed, strided by the seed) so that a score depending on earlier calls is seen; oracle = Law 77 formula in vf/model/score.py. Concurrent use: two scorers (contracts that differ only in the declaring side, a passed-out board, a redoubled grand slam) run as kernel tasks with a scheduling point at every source line of the scoring modules on a freshly imported package; all schedules with <= 1 deviation are enumerated, each call must return what it returns alone. '
        'Non-trivial = cell whose board vulnerability is NS or EW (declarer\'s side decides) or a '
        'passed-out cell; '
        'distinct by (bid,dbl,vul,declarer,tricks).')
ASSUMPTIONS = ['reference scorer vf/model/score.py is the Law 77 formula, written without the repository tables']


def plan(tier):
    return [{'kind': 'grid', 'bids': list(range(b, 35, 5))} for b in range(5)] + [{'kind': 'passed_out'}] + \
        [{'kind': 'concurrent', 'shard': i, 'of': 4} for i in range(4)]


def _cell(bid, dbl, vn, decl, tricks, stats=None):
    from bridge_env.score import calc_score, calc_bid_score
    case = {'bid': A.call_name(bid), 'dbl': dbl, 'vul': vn, 'declarer': A.SEATS[decl], 'tricks': tricks}
    level, strain = bid // 5 + 1, bid % 5
    sv = S.side_vulnerable(vn, decl)
    exp = S.score(level, strain, dbl, sv, tricks)
    c = be.contract_of(bid, dbl, vn, decl)
    got = guard('calc_score raises', case, calc_score, c, tricks)
    check(got == exp and type(got) is int, 'calc_score != duplicate table', case, {'got': got, 'expected': exp})
    got2 = guard('calc_bid_score raises', case, calc_bid_score, be.BID[bid], dbl >= 1, dbl == 2, sv, tricks)
    check(got2 == exp, 'calc_bid_score != duplicate table', case, {'got': got2, 'expected': exp})
    if (bid + tricks + decl) % 7 == 0:
        # the same contract reached in other ways a caller may use: derived with dataclasses.replace from a contract of the
        # other side / another vulnerability, copied, pickled, and passed by keyword
        import copy as _copy
        import dataclasses as _dc
        import pickle as _pickle
        other = be.contract_of(bid, dbl, be.VUL_NAMES[(be.VUL_NAMES.index(vn) + 1) % 4], (decl + 1) % 4)
        variants = {'copy.copy': lambda: _copy.copy(c), 'copy.deepcopy': lambda: _copy.deepcopy(c),
                    'pickle round trip': lambda: _pickle.loads(_pickle.dumps(c))}
        if _dc.is_dataclass(c):
            variants['dataclasses.replace from the other side'] = lambda: _dc.replace(other, vul=be.VUL[vn], declarer=be.SEAT[decl])
        for how, make in variants.items():
            cv = guard(f'contract via {how} raises', case, make)
            gv = guard(f'calc_score raises on a contract obtained via {how}', case, calc_score, cv, tricks)
            check(gv == exp, f'calc_score of a contract obtained via {how} != duplicate table', case, {'got': gv, 'expected': exp})
        gk = guard('calc_score raises when called with keyword arguments', case, lambda: calc_score(contract=c, taken_tricks=tricks))
        check(gk == exp, 'calc_score(contract=..., taken_tricks=...) != duplicate table', case, {'got': gk, 'expected': exp})
    if dbl == 2:
        # a redoubled contract may also be represented with x=False, xx=True
        from bridge_env import Contract
        c2 = Contract(final_bid=be.BID[bid], x=False, xx=True, vul=be.VUL[vn], declarer=be.SEAT[decl])
        got3 = guard('calc_score raises', case, calc_score, c2, tricks)
        check(got3 == exp, 'calc_score(xx only) != duplicate table', case, {'got': got3, 'expected': exp})
    if stats is not None:
        stats.evaluated()
        if vn in ('NS', 'EW'):
            stats.nt(case, case)
        stats.cls('made' if tricks >= level + 6 else 'down')
        stats.cls(f'vul={vn}')


def _passed(form, vn, tricks, stats=None):
    from bridge_env.score import calc_score
    from bridge_env import Contract, Bid
    case = {'passed_out_form': form, 'vul': vn, 'tricks': tricks}
    fb = None if form == 'None' else Bid['Pass']
    c = Contract(final_bid=fb, vul=be.VUL[vn])
    got = guard('calc_score raises on passed-out', case, calc_score, c, tricks)
    check(got == 0, 'passed-out board does not score 0', case, {'got': got})
    if stats is not None:
        stats.evaluated()
        stats.cls('passed_out')
        stats.nt(case)


def _p_scores(B):
    import importlib
    sc = importlib.import_module('bridge_env.score')

    def c(bid, x, xx, vul, decl):
        return B.Contract(final_bid=B.Bid[bid], x=x, xx=xx, vul=B.Vul[vul], declarer=B.Player[decl])
    return [lambda: [sc.calc_score(c('S4', False, False, 'NS', 'N'), 10), sc.calc_score(c('S4', False, False, 'NS', 'E'), 10),
                     sc.calc_score(B.Contract(None, vul=B.Vul.EW), 0)],
            lambda: [sc.calc_score(c('S4', False, False, 'NS', 'E'), 10), sc.calc_score(c('NT7', True, True, 'EW', 'W'), 0),
                     sc.calc_score(c('C1', True, False, 'BOTH', 'S'), 9)]]


def concurrent_programs():
    from vf.props import _concurrent as CC
    tr = tuple(f'/bridge_env/{m}.py' for m in ('score', 'contract', 'pair', 'player', 'vul', 'bid'))
    return {'scores of two tables': (_p_scores, CC.same_as_alone, tr)}


def run_shard(spec, seed, tier, stats):
    if spec['kind'] == 'concurrent':
        from vf.props import _concurrent as CC
        try:
            for name, (prog, oracle, tr) in concurrent_programs().items():
                CC.explore(name, prog, oracle, stats, bound=1, orders=(0, 1), trace=tr, shard=spec['shard'], of=spec['of'])
        except Violation as v:
            return [v]
        return []
    fails = {}
    try:
        if spec['kind'] == 'grid':
            cells = [(bid, dbl, vn, decl, tricks) for bid in range(35) if bid % 5 == spec['bids'][0] % 5 for dbl in range(3)
                     for vn in be.VUL_NAMES for decl in range(4) for tricks in range(14)]
            # the complete grid, three times in different orders: a score must not depend on what was scored before
            for name, items in orders(cells, seed // 1000):
                be.stir(seed + len(name))      # unrelated library activity between the passes
                for t in items:
                    try:
                        _cell(*t, stats=stats if name == 'forward' else None)
                    except Violation as v:
                        v.case = dict(v.case, enumeration_order=name) if isinstance(v.case, dict) else v.case
                        fails.setdefault(v.clause, v)
                stats.cls(f'grid pass ({name} order)')
        else:
            for name, items in orders([(form, vn, tricks) for form in ('None', 'Pass') for vn in be.VUL_NAMES for tricks in range(14)], seed // 1000):
                for t in items:
                    try:
                        _passed(*t, stats=stats if name == 'forward' else None)
                    except Violation as v:
                        fails.setdefault(v.clause, v)
    except Violation as v:
        fails.setdefault(v.clause, v)
    return list(fails.values())


def replay(rec):
    c = rec['case']
    if 'concurrent_program' in c:
        from vf.props import _concurrent as CC
        return CC.replay(rec, concurrent_programs())
    try:
        if 'passed_out_form' in c:
            _passed(c['passed_out_form'], c['vul'], c['tricks'])
        else:
            bid = [A.call_name(b) for b in range(35)].index(c['bid'])
            _cell(bid, c['dbl'], c['vul'], A.SEATS.index(c['declarer']), c['tricks'])
    except Violation as v:
        return v
    return None
