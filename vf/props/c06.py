"""C06 - the playable-card set is exactly the follow-suit rule."""
import random
from hypothesis import strategies as st
from vf.common.core import Violation, check, guard, run_hypothesis
from vf.common import be
from vf.model import auction as A, play as P
from vf.props import _play as PL
from vf.props.c04 import parse_board_case, _parse_cards

ID = 'C06'
LEVEL = 'exploration'
RULE = ('(a) static: hand = Hypothesis set of 1-13 of the 52 cards (biased to one- and two-suited hands), led card = any of '
        'the 52 or none, through PlayingPhase.available_cards; (b) dynamic: every state reached while playing generated '
        'boards (C04 generator, revokes included): the seat on turn through PlayingPhaseWithHands.current_available_cards'
        '_in_hand, each of the 4 observers through current_available_cards_in_hand and (once disclosed) '
        'current_available_cards_in_dummy_hand, and RandomPlay.play(hand, env) with the global RNG seeded from a drawn '
        'integer, 3 draws per state for own hand and for dummy. Oracle: result == whole hand when leading or void in '
        'the led suit, else exactly the hand\'s cards of the led suit (independent set comprehension); non-empty; subset '
        'of the hand; RandomPlay\'s card is in that set. Non-trivial = non-leading case where the hand holds the led '
        'suit AND another suit (the filter matters) or is void in it; distinct by (hand, led card). (c) one RandomPlay object serving three decisions of two seats concurrently, every line-level schedule with <= 1 (thorough 2) deviations: each choice must lie in its caller\'s playable set.')
ASSUMPTIONS = ['RandomPlay uses the global random module; it is seeded from a Hypothesis-drawn integer before each call']


def plan(tier):
    a, pa = (6, 10000) if tier == 'quick' else (8, 150000)
    b, pb = (10, 500) if tier == 'quick' else (16, 3000)
    return [{'kind': 'static', 'n': pa} for _ in range(a)] + [{'kind': 'boards', 'n': pb} for _ in range(b)] + [{'kind': 'concurrent'}]


# ---------------------------------------------------------------------------------------
# concurrent use: ONE RandomPlay object serving two seats at once (line-level schedules, vf/props/_concurrent.py)

def _p_shared_random_play(B):
    from bridge_env.network_bridge.playing_system import RandomPlay
    from bridge_env.playing_phase import PlayingPhase
    C = lambda t: B.Card.str_to_card(t)                                                             # noqa
    rp = RandomPlay()
    e1 = PlayingPhase(B.Contract(final_bid=B.Bid.NT1, declarer=B.Player.N)); e1.play_card(C('S2'))   # spade led
    e2 = PlayingPhase(B.Contract(final_bid=B.Bid.H2, declarer=B.Player.E)); e2.play_card(C('D9'))    # diamond led
    h1 = {C(t) for t in ('SA', 'S5', 'HK', 'D3', 'C2')}
    h2 = {C(t) for t in ('DK', 'D4', 'SQ', 'H7', 'CA')}
    return [lambda: str(rp.play(set(h1), e1)), lambda: str(rp.play(set(h2), e2)), lambda: str(rp.play(set(h1), e1))]


def _in_follow_sets(res, expected):
    allowed = [{'SA', 'S5'}, {'DK', 'D4'}, {'SA', 'S5'}]
    for i, r in enumerate(res):
        if r not in allowed[i]:
            return ('a RandomPlay object used by two seats at once chose a card outside the caller\'s playable set', {'call': i, 'chose': repr(r)[:100], 'playable': sorted(allowed[i])})
    return None


def concurrent_programs():
    return {'one RandomPlay object, three concurrent decisions': (_p_shared_random_play, _in_follow_sets,
                                                                 ('/bridge_env/network_bridge/playing_system.py', '/bridge_env/playing_phase.py'))}


def _classify(stats, hand, led, tag):
    if stats is None:
        return
    stats.evaluated()
    if led is None:
        stats.cls(f'{tag}: leading')
        return
    suits = {c // 13 for c in hand}
    if led // 13 not in suits:
        stats.cls(f'{tag}: void in led suit')
        stats.nt([sorted(hand), led], {'hand': PL.fmt_cards(sorted(hand)), 'led': P.card_name(led)} if len(hand) == 5 else None)
    elif len(suits) > 1:
        stats.cls(f'{tag}: must follow, holds other suits too')
        stats.nt([sorted(hand), led], {'hand': PL.fmt_cards(sorted(hand)), 'led': P.card_name(led)} if len(hand) == 4 else None)
    else:
        stats.cls(f'{tag}: single-suited in led suit')


def _expect(got_set, hand, led, clause, case):
    got = sorted(be.CARD_IDX[c] for c in got_set)
    exp = sorted(P.follow_set(hand, led))
    check(got == exp, clause, case, {'got': PL.fmt_cards(got), 'expected': PL.fmt_cards(exp)})
    check(len(got) > 0 and set(got) <= set(hand), clause + ' (empty or outside the hand)', case, {'got': PL.fmt_cards(got)})


def _static(hand, led, stats=None):
    from bridge_env.playing_phase import PlayingPhase
    case = {'hand': PL.fmt_cards(sorted(hand)), 'led': None if led is None else P.card_name(led)}
    hs = {be.CARD[c] for c in hand}
    got = guard('available_cards raises', case, PlayingPhase.available_cards, hs, None if led is None else be.CARD[led])
    _expect(got, hand, led, 'available_cards is not the follow-suit set', case)
    check({be.CARD_IDX[c] for c in hs} == set(hand), 'available_cards modified the hand', case)
    _classify(stats, hand, led, 'static')


def _random_play(env, hand, led, k, case, what, stats):
    from bridge_env.network_bridge.playing_system import RandomPlay
    hs = {be.CARD[c] for c in hand}
    for j in range(3):
        random.seed(k * 7 + j)
        card = guard('RandomPlay.play raises', case, RandomPlay().play, hs, env)
        check(be.CARD_IDX[card] in P.follow_set(hand, led), f'RandomPlay chose a card outside the playable set ({what})',
              case, {'chose': str(card)})
        if stats is not None:
            stats.evaluated()
            stats.cls('RandomPlay draws')


def _board(bid, owner, declarer, plays, k, stats=None):
    b = PL.Board(owner, (bid, declarer, 0, 'None'), observers=True)
    cards, _ = PL.script_cards(owner, declarer, bid % 5, plays)
    for i in range(52):
        s = b.m.turn
        led = b.m.trick[0] if b.m.trick else None
        refused = []
        if (i + k) % 3 == 0:
            # states reached after REFUSED plays are reachable states too: offer inadmissible plays (out of turn, card of
            # another seat, card already played) first; whether they are refused cleanly is C05's business, here only
            # the playable sets afterwards are compared
            for card, seat, what in PL.fault_candidates(b)[: 1 + (k + i) % 4]:
                try:
                    b.env.play_card_by_player(be.CARD[card], be.SEAT[seat])
                except Exception:  # noqa
                    refused.append([P.card_name(card), A.SEATS[seat]])
            for o, ob in enumerate(b.obs):
                for card, seat, what in PL.fault_candidates(b, observer=o)[(k + o) % 2: (k + o) % 2 + 1]:
                    try:
                        ob.play_card_by_player(be.CARD[card], be.SEAT[seat])
                    except Exception:  # noqa
                        pass
            if stats is not None and refused:
                stats.cls('states queried after refused plays')
        looked_ahead = False
        if (i + k) % 4 == 1:
            # a player that thinks ahead: every phase is deep-copied, the copy plays the next one or two cards (the ones that
            # will really be played) and is thrown away - the playable sets of the real board are asked afterwards
            looked_ahead = True
            import copy
            for env in [b.env] + list(b.obs):
                try:
                    cp = copy.deepcopy(env)
                except Exception:  # noqa  (nothing to look ahead with; that boards can be deep-copied is checked by C05)
                    continue
                mm = copy.deepcopy(b.m)
                for c2 in cards[i:i + 1 + (k + i) % 2]:
                    try:
                        cp.play_card_by_player(be.CARD[c2], be.SEAT[mm.turn])
                    except Exception:  # noqa  (whether copies play correctly is C05's business)
                        break
                    mm.play(c2)
            if stats is not None:
                stats.cls('states queried after deep copies of every phase were played ahead and discarded')
        case = b.case({'seat': A.SEATS[s], 'k': k, 'refused_before_query': refused, 'copies_played_ahead': looked_ahead})
        hand = set(b.hands[s])
        got = guard('current_available_cards_in_hand raises', case, b.env.current_available_cards_in_hand, be.SEAT[s])
        _expect(got, hand, led, "table manager's playable set is not the follow-suit set", case)
        _classify(stats, hand, led, 'own hand')
        # the table manager can be asked about ANY seat's hand at any time (a declarer planning while dummy is on turn,
        # a defender thinking ahead): always that seat's own cards under the follow-suit rule
        for o in range(4):
            if o != s and b.hands[o]:
                got = guard('current_available_cards_in_hand raises', case, b.env.current_available_cards_in_hand, be.SEAT[o])
                _expect(got, set(b.hands[o]), led, "table manager's playable set for a seat not on turn is not that seat's follow-suit set",
                        dict(case, asked_about=A.SEATS[o]))
                _classify(stats, set(b.hands[o]), led, 'seat not on turn')
        # every other seat as well (what it could play if it were to follow)
        for o, ob in enumerate(b.obs):
            oh = set(b.hands[o])
            if oh:
                got = guard('observer current_available_cards_in_hand raises', case, ob.current_available_cards_in_hand)
                _expect(got, oh, led, "observer's playable set (own hand) is not the follow-suit set", dict(case, observer=A.SEATS[o]))
                _classify(stats, oh, led, 'observer own hand')
            if o != b.m.dummy and i >= 1 and b.hands[b.m.dummy]:
                dh = set(b.hands[b.m.dummy])
                got = guard('current_available_cards_in_dummy_hand raises', case, ob.current_available_cards_in_dummy_hand)
                _expect(got, dh, led, "observer's playable set (dummy's hand) is not the follow-suit set", dict(case, observer=A.SEATS[o]))
                _classify(stats, dh, led, 'dummy hand')
        # the bundled example player: the seat on turn (declarer for dummy) picks from the hand it plays from
        actor = b.m.declarer if s == b.m.dummy else s
        if i % 3 == k % 3:
            _random_play(b.obs[actor], hand, led, k + i, case, 'dummy hand' if s == b.m.dummy else 'own hand', stats)
        b.play(cards[i])


def _hand_strategy():
    any_hand = st.sets(st.integers(0, 51), min_size=1, max_size=13)
    few_suits = st.tuples(st.lists(st.integers(0, 3), min_size=1, max_size=2), st.sets(st.tuples(st.integers(0, 1), st.integers(0, 12)), min_size=1, max_size=13)) \
        .map(lambda t: {t[0][i % len(t[0])] * 13 + r for i, r in t[1]})
    return st.one_of(any_hand, few_suits)


def run_shard(spec, seed, tier, stats):
    shrink = tier == 'thorough'
    if spec['kind'] == 'concurrent':
        from vf.props import _concurrent as CC
        try:
            for name, (prog, oracle, tr) in concurrent_programs().items():
                CC.explore(name, prog, oracle, stats, bound=1 if tier == 'quick' else 2, orders=(0, 1), trace=tr)
        except Violation as v:
            return [v]
        return []
    if spec['kind'] == 'static':
        v = run_hypothesis(lambda hand, led: _static(hand, led, stats),
                           {'hand': _hand_strategy(), 'led': st.one_of(st.none(), st.integers(0, 51), st.integers(0, 51), st.integers(0, 51))}, seed, spec['n'], shrink)
    else:
        v = run_hypothesis(lambda bid, owner, declarer, plays, k: _board(bid, owner, declarer, plays, k, stats),
                           {'bid': st.integers(0, 34), 'owner': PL.DEAL, 'declarer': st.integers(0, 3), 'plays': PL.PLAYS,
                            'k': st.integers(0, 10 ** 6)}, seed, spec['n'], shrink)
    return [v] if v else []


def replay(rec):
    c = rec['case']
    if 'concurrent_program' in c:
        from vf.props import _concurrent as CC
        return CC.replay(rec, concurrent_programs())
    try:
        if 'deal' not in c:
            _static(set(_parse_cards(c['hand'])), None if c['led'] is None else _parse_cards([c['led']])[0])
            return None
        owner, contract = parse_board_case(c)
        cards = _parse_cards(c['played'])
        # rebuild as an explicit play script: follow=False with exact index
        b = PL.Board(owner, contract, observers=True)
        plays = []
        hands = [set(h) for h in PL.hands_of(owner)]
        m = P.Play(contract[1], contract[0] % 5)
        for x in cards:
            s = m.turn
            plays.append((False, sorted(hands[s]).index(x)))
            hands[s].discard(x); m.play(x)
        while len(plays) < 52:
            plays.append((True, 0))
        for k in ([c['k']] if 'k' in c else []) + list(range(3)):
            _board(contract[0], owner, contract[1], plays, k)
    except Violation as v:
        return v
    return None
