"""C13 - an aborted session still leaves a well-formed log of the completed boards."""
import io
import json
from hypothesis import strategies as st
from vf.common.core import Violation, Inconclusive, check, run_hypothesis
from vf.common import be
from vf.model import auction as A, play as P, protocol as PR
from vf.props import _session as SE
from vf.props import _play as PL

ID = 'C13'
USES_SIM = True
LEVEL = 'fault_enumeration'
KINDS_AUCTION = ['insufficient bid', 'inadmissible double', 'inadmissible redouble', 'unparseable call', 'call by the wrong name']
KINDS_PLAY = ['unparseable card', 'card held by another seat', 'card already played', 'empty card', 'card of a non-existent rank']
RULE = ('simulated sessions of n = 1-5 boards (generator of C08) with exactly one fault: abort at board k (1..n), in the auction '
        'at call j or in the play at card j, by whichever seat acts there, of kind ' + ', '.join(KINDS_AUCTION + KINDS_PLAY) +
        ', or an operator interrupt (KeyboardInterrupt raised in the main thread at its j-th blocking queue read of '
        'board k, or at its p-th blocking step of any kind - queue read, pause, arrival at a barrier - after the players are seated, where the boards finished before the abort are those whose every call and card the table manager had already received; or from inside the serialisation of the record of board k, where the file may hold k or k+1 boards but must be complete); plus, on a REAL server process running the table manager in its main thread over loopback TCP, a real SIGINT (what Ctrl-C sends) delivered while it waits for the acting seat at a generated point of board k >= 2 (8 per quick run, 400 per thorough run; a wall-clock safety net there means inconclusive). Kind and board class (first / second / last board) are drawn uniformly (class histogram in the evidence); j, '
        'the rest of the scenario and the thread schedule are generated. Oracle: Server.run raises; afterwards the output file parses as '
        'JSON, passes JsonParser.parse_board_logs, and holds exactly the records of boards 1..k-1 (each equal to the C08 '
        'expectation on every field) and nothing of board k. evaluations = aborted sessions. Non-trivial = abort with '
        'k >= 2 (something must survive); distinct by (k, n, phase, j, kind, seat).')
ASSUMPTIONS = ['simulation kernel fidelity (DESIGN.md 4.3/4.5)',
               'an operator interrupt is modelled as KeyboardInterrupt delivered while the main thread blocks on a queue read']


def plan(tier):
    n, per = (16, 200) if tier == 'quick' else (16, 5000)
    nr, perr = (4, 2) if tier == 'quick' else (16, 25)
    return [{'kind': 'aborts', 'n': per, 'min_boards': 1 + i % 3} for i in range(n)] + [{'kind': 'real-interrupt', 'n': perr} for _ in range(nr)]


def offending_text(scenario, k, phase, j, kind):
    """Returns (seat, text) or None if this kind does not apply at that position."""
    b = scenario['boards'][k]
    dealer = b['dealer']
    if phase == 'auction':
        calls = b['calls'][:j]
        seat = (dealer + j) % 4
        legal = A.legal_calls(dealer, calls)
        if kind == 'insufficient bid':
            last_bid, _, _ = A.analyse(dealer, calls)
            if last_bid is None:
                return None
            bad = last_bid if j % 2 else max(0, last_bid - 1 - j % 3)
            return seat, PR.call_text(seat, bad)
        if kind == 'inadmissible double':
            return None if A.X in legal else (seat, PR.call_text(seat, A.X))
        if kind == 'inadmissible redouble':
            return None if A.XX in legal else (seat, PR.call_text(seat, A.XX))
        if kind == 'unparseable call':
            return seat, [f'{PR.FORMAL[seat]} bids', f'{PR.FORMAL[seat]} bids 8C', f'{PR.FORMAL[seat]} bids 1Z', 'hello',
                          f'{PR.FORMAL[seat]} resigns', f'{PR.FORMAL[seat]}'][j % 6]
        if kind == 'call by the wrong name':
            return seat, PR.call_text((seat + 1 + j % 3) % 4, A.PASS)
        raise AssertionError(kind)
    res = A.result(dealer, b['calls'])
    if res is None:
        return None
    bid, dbl, decl = res
    m = P.Play(decl, bid % 5)
    hands = [set(h) for h in PL.hands_of(b['owner'])]
    for c in b['cards'][:j]:
        hands[m.turn].discard(c)
        m.play(c)
    actor = m.turn
    sender = decl if actor == m.dummy else actor
    name = PR.FORMAL[actor]
    if kind == 'unparseable card':
        return sender, [f'{name} plays', f'{name} plays XX', f'{name} plays 1H', 'garbage', f'{name} leads AS', f'{name} plays Z9'][j % 6]
    if kind == 'card held by another seat':
        others = sorted(c for s in range(4) if s != actor for c in hands[s])
        if not others:
            return None
        return sender, PR.card_text(actor, others[j % len(others)], j % 2 == 0)
    if kind == 'card already played':
        if j == 0:
            return None
        return sender, PR.card_text(actor, b['cards'][(j * 7) % j], j % 2 == 0)
    if kind == 'empty card':
        return sender, f'{name} plays '
    if kind == 'card of a non-existent rank':
        return sender, f'{name} plays 1S' if j % 2 else f'{name} plays S1'
    raise AssertionError(kind)


def gets_before(scenario, k):
    """Number of blocking queue reads the main thread performs before board k starts."""
    n = 0
    for b in scenario['boards'][:k]:
        n += len(b['calls'])
        if A.result(b['dealer'], b['calls']) is not None:
            n += 52
    return n


def check_real_interrupt(scenario, fault, stats=None):
    """A real SIGINT (Ctrl-C) delivered to a real server PROCESS while its main thread waits for the acting seat."""
    from vf.sim.realrun import run_real_interrupt
    from bridge_env.data_handler.json_handler.parser import JsonParser
    k = fault['board']
    try:
        r = run_real_interrupt(scenario, fault)
    except Inconclusive:
        if stats is not None:
            stats.excluded['real server process could not be started (skipped, not judged)'] += 1
        return
    case = {'scenario': scenario, 'schedule': {'kind': 'sequential'}, 'fault': fault, 'real_process': True}
    if r.timed_out or not r.interrupt_sent:
        # wall-clock safety net / the scripted point was never reached (a loaded machine, a port taken by somebody
        # else): says nothing about the property - the case is skipped and counted, never reported
        if stats is not None:
            stats.excluded['real interrupt run stopped by the wall-clock safety net or never reached its point (skipped, not judged)'] += 1
        return
    text = r.output_text
    try:
        logs = json.loads(text)['logs']
    except Exception as e:  # noqa
        raise Violation('after a real operator interrupt (SIGINT) the output file is not a complete JSON document', case,
                        {'error': repr(e)[:160], 'tail': (text or '')[-60:], 'server_returncode': r.returncode, 'stderr': r.stderr_tail[-300:]})
    try:
        parsed = JsonParser().parse_board_logs(io.StringIO(text))
    except Exception as e:  # noqa
        raise Violation('after a real operator interrupt the log parser rejects the output file', case, {'error': repr(e)[:200]})
    check(len(logs) == k and len(parsed) == k, 'after a real operator interrupt the log does not hold exactly the boards finished before it', case,
          {'in_log': len(logs), 'finished_before_abort': k, 'server_returncode': r.returncode})
    for i in range(k):
        e = SE.board_expect(scenario['boards'][i])
        for f in SE.LOG_FIELDS:
            check(logs[i].get(f, '<missing>') == e[f], f'a board finished before the real interrupt is not whole: {f}', case,
                  {'board': i, 'logged': logs[i].get(f, '<missing>'), 'expected': e[f]})
    if stats is not None:
        stats.evaluated()
        stats.cls('real SIGINT to a real server process')
        stats.cls(f'real interrupt during the {fault["phase"]}')
        if k >= 1:
            stats.nt(['real', k, len(scenario['boards']), fault['phase'], fault['pos']], {'real_sigint': True, 'fault': fault, 'server_returncode': r.returncode} if k == 1 else None)


@st.composite
def real_case(draw):
    scenario = draw(SE.SCENARIO(2, 3, 6))
    scenario = dict(scenario, split=None)
    n = len(scenario['boards'])
    k = draw(st.integers(1, n - 1))
    b = scenario['boards'][k]
    res = A.result(b['dealer'], b['calls'])
    phase = draw(st.sampled_from(['auction', 'play'])) if res is not None else 'auction'
    if phase == 'auction':
        j = draw(st.integers(0, len(b['calls']) - 1))
        seat = (b['dealer'] + j) % 4
    else:
        j = draw(st.integers(0, 51))
        m = P.Play(res[2], res[0] % 5)
        for c in b['cards'][:j]:
            m.play(c)
        seat = res[2] if m.turn == m.dummy else m.turn
    return scenario, {'board': k, 'phase': phase, 'pos': j, 'kind': 'operator interrupt (real SIGINT)', 'seat': seat}


def check_session(scenario, schedule, stats=None, fault=None, real_process=False, **kw):
    if real_process:
        return check_real_interrupt(scenario, fault, stats)
    k = fault['board']
    hook = None
    fired = []
    if fault['kind'] == 'operator interrupt at a blocking step':
        # KeyboardInterrupt at the p-th BLOCKING step of the main thread after the players are seated (a queue read, a
        # pause, the arrival at a barrier - where an operator's Ctrl-C lands in practice).  The boards "finished before
        # the abort" are those whose every call and card the table manager had already received: counted at run time.
        state = {'seated': False, 'blocks': 0, 'gets': 0}

        def fh(task, op, obj):
            if task is None or task.name != 'main':
                return
            if not state['seated']:
                if op == 'barrier.wait':
                    state['seated'] = 'arrived'
                return
            if op in ('queue.get', 'sleep', 'barrier.wait'):
                if state['blocks'] == fault['pos']:
                    state['blocks'] += 1
                    fired.append(state['gets'])
                    raise KeyboardInterrupt()
                state['blocks'] += 1
                if op == 'queue.get':
                    state['gets'] += 1

        def hook(kernel):
            kernel.fault_hook = fh
    elif fault['kind'] == 'operator interrupt while a record is written':
        # KeyboardInterrupt raised from inside the serialisation of board k's record (json.dumps as the writer module sees
        # it).  Board k was played to the end; whether its record still makes it into the file is not prescribed - but the
        # file must be a complete document holding the first k or k+1 boards, each whole.
        import types as _types
        from bridge_env.data_handler.json_handler import writer as W
        real_json = W.json
        calls = [0]

        def dumps(*a, **kw):
            calls[0] += 1
            if calls[0] - 1 == k:
                fired.append(k)
                raise KeyboardInterrupt()
            return real_json.dumps(*a, **kw)
        shim = _types.SimpleNamespace(**{n: getattr(real_json, n) for n in dir(real_json) if not n.startswith('__')})
        shim.dumps = dumps

        def hook(kernel):
            W.json = shim
        restore = lambda: setattr(W, 'json', real_json)
    elif fault['kind'] == 'operator interrupt':
        target = gets_before(scenario, k) + fault['pos']
        count = [0]

        def fh(task, op, obj):
            if task is not None and task.name == 'main' and op == 'queue.get':
                if count[0] == target:
                    count[0] += 1
                    raise KeyboardInterrupt()
                count[0] += 1

        def hook(kernel):
            kernel.fault_hook = fh
    try:
        r = SE.run_case(scenario, schedule, fault=None if fault['kind'].startswith('operator interrupt') else fault, kernel_hook=hook,
                        clients_required=False)
    finally:
        if fault['kind'] == 'operator interrupt while a record is written':
            restore()
    case = SE.case_of(scenario, schedule, r, {'fault': fault})
    either = None
    if fault['kind'] == 'operator interrupt while a record is written':
        if not fired:
            # the writer did not serialise through json.dumps: nothing was interrupted
            if stats is not None:
                stats.excluded['record serialisation could not be interrupted (writer does not call json.dumps)'] += 1
            SE.first_problem(SE.completion_problems(scenario, r), scenario, schedule, r)
            return
        either = (k, k + 1)
    if fault['kind'] == 'operator interrupt at a blocking step':
        if not fired:
            # the session had fewer blocking steps than the drawn position: nothing was interrupted
            if stats is not None:
                stats.excluded['interrupt position beyond the end of the session'] += 1
            SE.first_problem(SE.completion_problems(scenario, r), scenario, schedule, r)
            return
        k = max(b for b in range(len(scenario['boards']) + 1) if gets_before(scenario, b) <= fired[0])
        case['boards_fully_received_before_the_interrupt'] = k
    if r.outcome.status == 'deadlock':
        raise Violation('aborting session deadlocked before the table manager gave up', case, {'blocked': r.outcome.detail})
    check(r.server_exc is not None, 'the table manager did not abandon the session on an offending action', case,
          {'log_tail': (r.output_text or '')[-100:]})
    text = r.output_text
    try:
        doc = json.loads(text)
        logs = doc['logs']
    except Exception as e:  # noqa
        raise Violation('after an abort the output file is not a complete JSON document', case,
                        {'error': repr(e)[:160], 'tail': (text or '')[-60:], 'server_exception': repr(r.server_exc)[:160]})
    from bridge_env.data_handler.json_handler.parser import JsonParser
    try:
        parsed = JsonParser().parse_board_logs(io.StringIO(text))
    except Exception as e:  # noqa
        raise Violation('after an abort the log parser rejects the output file', case, {'error': repr(e)[:200]})
    if either is not None and len(logs) in either and len(parsed) == len(logs):
        k = len(logs)
    check(len(logs) == k and len(parsed) == k, 'after an abort the log does not hold exactly the boards finished before it', case,
          {'in_log': len(logs), 'finished_before_abort': k})
    for i in range(k):
        e = SE.board_expect(scenario['boards'][i])
        for f in SE.LOG_FIELDS:
            check(logs[i].get(f, '<missing>') == e[f], f'a board finished before the abort is not whole: {f}', case,
                  {'board': i, 'logged': logs[i].get(f, '<missing>'), 'expected': e[f]})
    if stats is not None:
        stats.evaluated()
        stats.cls(f'kind: {fault["kind"]}')
        stats.cls(f'phase: {fault["phase"]}')
        stats.cls('abort at board ' + ('1' if k == 0 else '2' if k == 1 else '3+'))
        stats.cls(f'server exception {type(r.server_exc).__name__}')
        if k >= 1:
            stats.nt([k, len(scenario['boards']), fault['phase'], fault['pos'], fault['kind'], fault.get('seat')],
                     {'fault': fault, 'boards': len(scenario['boards']), 'log_tail': text[-40:]} if k == 1 else None)


@st.composite
def case_strategy(draw, min_boards=1):
    i = draw(st.integers(0, 38))       # selects (kind, board class): all 13 kinds x {first, second, last board}
    scenario = draw(SE.SCENARIO(min_boards, 5, 6))
    n = len(scenario['boards'])
    kinds = [('auction', x) for x in KINDS_AUCTION] + [('play', x) for x in KINDS_PLAY] + [('any', 'operator interrupt'),
                                                                                         ('any', 'operator interrupt at a blocking step'),
                                                                                         ('any', 'operator interrupt while a record is written')]
    # cycle deterministically through (kind, board class); fall back to the next applicable kind
    k = [0, min(1, n - 1), n - 1][(i // len(kinds)) % 3]
    jraw = draw(st.integers(0, 400))
    for off in range(len(kinds)):
        phase, kind = kinds[(i + off) % len(kinds)]
        b = scenario['boards'][k]
        played = A.result(b['dealer'], b['calls']) is not None
        if kind == 'operator interrupt while a record is written':
            return scenario, {'board': k, 'phase': 'any', 'pos': 0, 'kind': kind, 'seat': None}
        if kind == 'operator interrupt at a blocking step':
            # blocking steps of the main thread after seating: per board 2 barrier arrivals, one read per call, and per
            # trick one pause and four reads (as the table manager stands today; if the position lies beyond the end of
            # the session nothing is interrupted and the case is skipped)
            ends, upto = [], 0
            for b2 in scenario['boards'][:k + 1]:
                upto += 2 + len(b2['calls']) + (65 if A.result(b2['dealer'], b2['calls']) is not None else 0)
                ends.append(upto)
            pos = jraw * 7919 % max(1, upto)
            if jraw % 2:
                # half of the cases: around the end of a board (the step right after its last card or call was received)
                pos = max(0, ends[(jraw // 2) % len(ends)] - 2 + (jraw // 16) % 4)
            return scenario, {'board': k, 'phase': 'any', 'pos': pos, 'kind': kind, 'seat': None}
        if kind == 'operator interrupt':
            total = len(b['calls']) + (52 if played else 0)
            return scenario, {'board': k, 'phase': 'any', 'pos': jraw % total, 'kind': kind, 'seat': None}
        if phase == 'play' and not played:
            continue
        j = jraw % (len(b['calls']) if phase == 'auction' else 52)
        ot = offending_text(scenario, k, phase, j, kind)
        if ot is None:
            # try other positions for this kind
            for j2 in range(len(b['calls']) if phase == 'auction' else 52):
                ot = offending_text(scenario, k, phase, j2, kind)
                if ot is not None:
                    j = j2
                    break
        if ot is None:
            continue
        return scenario, {'board': k, 'phase': phase, 'pos': j, 'kind': kind, 'seat': ot[0], 'text': ot[1]}
    raise AssertionError('no applicable fault')


def run_shard(spec, seed, tier, stats):
    if spec['kind'] == 'real-interrupt':
        v = run_hypothesis(lambda cs: check_real_interrupt(cs[0], cs[1], stats), {'cs': real_case()}, seed, spec['n'], False)
        return [v] if v else []
    v = run_hypothesis(lambda cs, schedule: check_session(cs[0], schedule, stats, fault=cs[1]),
                       {'cs': case_strategy(spec['min_boards']), 'schedule': SE.SCHEDULE()}, seed, spec['n'], tier == 'thorough')
    return [SE.reduce_violation(check_session, v)] if v else []


def replay(rec):
    return SE.replay('C13', rec)
