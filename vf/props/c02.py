"""C02 - the auction proceeds clockwise from the dealer and ends exactly when it must."""
from vf.common.core import Violation, run_hypothesis
from vf.common import be
from vf.model import auction as A
from vf.props import _auction as AU

ID = 'C02'
LEVEL = 'exploration'
PROPS = {'C02'}
RULE = ('(a) shape-exhaustive: every legal sequence over the abstract alphabet {Pass, cheapest bid, cheapest bid in '
        'the first-named strain, X, XX} up to 8 (quick) / 11 (thorough) calls from each dealer, completed by passes; '
        '(b) every model-legal sequence of length <= 3 (<= 4 thorough) from each dealer; (c) Hypothesis random walks '
        '(same generator as C01) incl. the 319-call auction. At every prefix: turn = dealer advanced clockwise by '
        'the number of accepted calls (None when over), each seat\'s personal list = its share of the common '
        'history, has_done and the FINISHED/ONGOING return value agree with the model on exactly the ending call; '
        'after the end each of the 38 calls must raise and change nothing. Non-trivial = complete auction whose end '
        'is not "bid, Pass, Pass, Pass" directly after the first call (opening passes, a double/redouble within '
        'the last 5 calls, or passed out); distinct by (dealer, history).')
ASSUMPTIONS = ['vf/model/auction.py states Law 17/22 (rotation; end of auction) correctly']


def plan(tier):
    depth = 8 if tier == 'quick' else 11
    sh = []
    for d in range(4):
        for f in range(3):
            sh.append({'kind': 'shapes', 'dealer': d, 'depth': depth, 'first': f})
    ed = 3 if tier == 'quick' else 4
    for d in range(4):
        sh.append({'kind': 'exhaustive', 'dealer': d, 'depth': ed})
    nw, per = (6, 300) if tier == 'quick' else (16, 12000)
    for i in range(nw):
        sh.append({'kind': 'walks', 'n': per // 3 if i % 3 == 2 else per, 'long': i % 3 == 2})
    sh.append({'kind': 'explicit'})
    return sh


def _nontrivial(calls):
    if all(c == A.PASS for c in calls):
        return True
    first_bid = next(i for i, c in enumerate(calls) if c < 35)
    return first_bid > 0 or any(c in (A.X, A.XX) for c in calls[-5:])


def _classify(stats, dealer, calls):
    if stats is None:
        return
    if all(c == A.PASS for c in calls):
        stats.cls('passed out')
    else:
        fb = next(i for i, c in enumerate(calls) if c < 35)
        stats.cls(f'opening passes = {fb}')
        if any(c in (A.X, A.XX) for c in calls[-5:]):
            stats.cls('double/redouble within last 5 calls')
    if _nontrivial(calls):
        stats.nt([dealer, calls], {'dealer': A.SEATS[dealer], 'calls': AU.names(calls)} if len(calls) in (4, 7, 11, 16) else None)


def _run(dealer, vul, calls, stats):
    AU.run_sequence(dealer, vul, calls, PROPS, stats, deep_legal=False)
    _classify(stats, dealer, calls)


def run_shard(spec, seed, tier, stats):
    k = spec['kind']
    fails = {}
    if k == 'shapes':
        d = spec['dealer']
        mv = AU.abstract_moves(d, [])
        # first call: Pass or cheapest bid (1C); shard 2 = a higher opening (3NT) to vary the level
        first = [A.PASS, 0, 14][spec['first']]
        seqs = AU.enumerate_shapes(d, spec['depth'], prefix=(first,))
        for i, calls in enumerate(seqs):
            try:
                _run(d, be.VUL_NAMES[i % 4], calls, stats)
            except Violation as v:
                fails.setdefault(v.clause, v)
        stats.cls('shape-exhaustive auctions', len(seqs))
        return list(fails.values())
    if k == 'exhaustive':
        d = spec['dealer']
        seqs = AU.enumerate_legal(d, spec['depth'])
        for i, calls in enumerate(seqs):
            try:
                w = AU.run_sequence(d, be.VUL_NAMES[i % 4], calls, PROPS, stats, deep_legal=False, every_prefix=False)
                if A.finished(calls):
                    _classify(stats, d, calls)
            except Violation as v:
                fails.setdefault(v.clause, v)
        stats.cls('exhaustive prefixes', len(seqs))
        return list(fails.values())
    if k == 'walks':
        steps = AU.LONG_STEPS if spec['long'] else AU.STEPS
        params = AU.PARAMS_LONG if spec['long'] else AU.PARAMS
        v = run_hypothesis(lambda dealer, vul, params, steps: _run(dealer, vul, AU.build_auction(dealer, params, steps), stats),
                           {'dealer': AU.DEALER, 'vul': AU.VULN, 'params': params, 'steps': steps},
                           seed, spec['n'], tier == 'thorough')
        return [v] if v else []
    if k == 'explicit':
        for d in range(4):
            for i, calls in enumerate(AU.explicit_auctions()):
                try:
                    _run(d, be.VUL_NAMES[(d + i) % 4], calls, stats)
                    stats.cls('explicit auctions')
                except Violation as v:
                    fails.setdefault(v.clause, v)
        return list(fails.values())
    raise AssertionError(k)


def replay(rec):
    c = rec['case']
    names = [A.call_name(i) for i in range(38)]
    calls = [names.index(x) for x in c['calls']]
    try:
        AU.run_sequence(A.SEATS.index(c['dealer']), c['vul'], calls, PROPS, deep_legal=False)
    except Violation as v:
        return v
    return None
