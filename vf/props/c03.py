"""C03 - final contract is the last bid, its doubling state and its true declarer."""
from hypothesis import strategies as st
from vf.common.core import Violation, run_hypothesis
from vf.common import be
from vf.model import auction as A
from vf.props import _auction as AU

ID = 'C03'
LEVEL = 'exploration'
PROPS = {'C03'}
RULE = ('complete auctions: (a) shape-exhaustive over {Pass, cheapest bid, cheapest bid in the first-named strain, X, '
        'XX} to 9 (quick) / 12 (thorough) calls from each dealer x vulnerability cycled; (b) Hypothesis walks with a '
        'palette of 1-2 strains (so both partners and both sides name the final strain often) and weights forcing '
        'superseded doubles, all dealers x vulnerabilities; (c) the passed-out and 319-call auctions. Oracle: '
        'contract() is None at every proper prefix; at the end final bid = last bid, doubling status = standing '
        'X/XX, vul = board vulnerability, declarer = first of the last bidder\'s side to name the strain; passed '
        'out => is_passed_out() and no declarer. Non-trivial = finished auction where declarer != last bidder, or '
        'the other side also named the final strain, or an earlier double/redouble was superseded; distinct by '
        '(dealer, history).')
ASSUMPTIONS = ['vf/model/auction.py states the definition of declarer (Laws, Definitions) correctly',
               'Contract doubling is compared as status (XX if xx, else X if x), raw flags are not compared']

PARAMS2 = st.tuples(st.sampled_from([5, 15, 30, 45]), st.sampled_from([10, 25, 40]),
                    st.lists(st.integers(0, 4), min_size=1, max_size=2, unique=True).map(tuple),
                    st.sampled_from([0, 0, 1, 3]))


def plan(tier):
    depth = 9 if tier == 'quick' else 12
    sh = []
    for d in range(4):
        for f in range(3):
            sh.append({'kind': 'shapes', 'dealer': d, 'depth': depth, 'first': f})
    nw, per = (8, 400) if tier == 'quick' else (16, 15000)
    for i in range(nw):
        sh.append({'kind': 'walks', 'n': per})
    sh.append({'kind': 'explicit'})
    return sh


def _features(dealer, calls):
    res = A.result(dealer, calls)
    if res is None:
        return {'passed out'}
    bid, dbl, decl = res
    last_bid, last_bidder, _ = A.analyse(dealer, calls)
    f = set()
    if decl != last_bidder:
        f.add('declarer is not the last bidder')
    strain = bid % 5
    for i, c in enumerate(calls):
        if c < 35 and c % 5 == strain and (A.seat_at(dealer, i) - last_bidder) % 2 == 1:
            f.add('other side also named the final strain')
    # superseded double: an X/XX followed later by a bid
    seen = False
    for c in calls:
        if c in (A.X, A.XX):
            seen = True
        elif c < 35 and seen:
            f.add('earlier double/redouble superseded')
    f.add(('undoubled', 'doubled', 'redoubled')[dbl])
    return f


def _run(dealer, vul, calls, stats):
    AU.run_sequence(dealer, vul, calls, PROPS, stats, deep_legal=False)
    if stats is not None:
        stats.evaluated()
        f = _features(dealer, calls)
        for x in f:
            stats.cls(x)
        if f - {'undoubled', 'doubled', 'redoubled', 'passed out'}:
            stats.nt([dealer, calls], {'dealer': A.SEATS[dealer], 'vul': vul, 'calls': AU.names(calls)} if len(calls) in (6, 9, 14) else None)


def run_shard(spec, seed, tier, stats):
    k = spec['kind']
    fails = {}
    if k == 'shapes':
        d = spec['dealer']
        first = [A.PASS, 0, 14][spec['first']]
        seqs = AU.enumerate_shapes(d, spec['depth'], prefix=(first,))
        for i, calls in enumerate(seqs):
            try:
                _run(d, be.VUL_NAMES[i % 4], calls, stats)
            except Violation as v:
                fails.setdefault(v.clause, v)
        return list(fails.values())
    if k == 'walks':
        v = run_hypothesis(lambda dealer, vul, params, steps: _run(dealer, vul, AU.build_auction(dealer, params, steps), stats),
                           {'dealer': AU.DEALER, 'vul': AU.VULN, 'params': PARAMS2, 'steps': AU.STEPS},
                           seed, spec['n'], tier == 'thorough')
        return [v] if v else []
    if k == 'explicit':
        for d in range(4):
            for i, calls in enumerate(AU.explicit_auctions()):
                for vn in be.VUL_NAMES:
                    try:
                        _run(d, vn, calls, stats)
                    except Violation as v:
                        fails.setdefault(v.clause, v)
        return list(fails.values())
    raise AssertionError(k)


def replay(rec):
    c = rec['case']
    names = [A.call_name(i) for i in range(38)]
    calls = [names.index(x) for x in c['calls']]
    try:
        AU.run_sequence(A.SEATS.index(c['dealer']), c['vul'], calls, PROPS, deep_legal=False)
    except Violation as v:
        return v
    return None
