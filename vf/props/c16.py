"""C16 - IMP conversion is the official scale, odd and monotone, for every difference."""
from hypothesis import strategies as st
from vf.common.core import Violation, check, guard, run_hypothesis
from vf.common import be  # noqa  (sets the import path)
from vf.model import imps as M

ID = 'C16'
LEVEL = 'exploration'
EXHAUSTIVE = False
RULE = ('exhaustive over every integer difference in [-20000, 20000] (quick) / [-200000, 200000] (thorough) '
        'plus Hypothesis integers of arbitrary magnitude (up to 10**5000; every value within 3 of a power of two up to 2**1100 - beyond what a float holds - completely) and pairs for the two-score form (independent, equal, opposite and near-opposite scores); each exhaustive range is walked a second time in descending strided order; '
        'oracle = WBF scale bands in vf/model/imps.py, range [-24,24], oddness f(-d) = -f(d), monotonicity on '
        'adjacent integers (exhaustive range) and on generated ordered pairs, score_to_imp(a,b) = f(a+b). '
        'Non-trivial = difference that is not a multiple of 10, or |d| > 5000, or within 1 of a scale threshold; '
        'distinct by value.')
ASSUMPTIONS = ['vf/model/imps.py transcribes the WBF IMP scale (Law 78B)']


def plan(tier):
    hi = 20000 if tier == 'quick' else 200000
    step = (2 * hi + 1 + 7) // 8
    sh = [{'kind': 'range', 'lo': -hi + i * step, 'hi': min(hi, -hi + (i + 1) * step)} for i in range(8)]
    n = 4000 if tier == 'quick' else 100000
    sh += [{'kind': 'big', 'n': n}, {'kind': 'pairs', 'n': n}, {'kind': 'mono', 'n': n}, {'kind': 'pow2'}]
    sh += [{'kind': 'concurrent', 'shard': i, 'of': 2} for i in range(2)]
    return sh


def _nontrivial(d):
    a = abs(d)
    return a % 10 != 0 or a > 5000 or any(abs(a - t) <= 1 for t in M.THRESHOLDS)


def _one(d, stats=None):
    from bridge_env.score import point_difference_to_imps as f
    case = {'diff': d}
    got = guard('point_difference_to_imps raises', case, f, d)
    exp = M.imps(d)
    check(got == exp, 'IMPs != official scale', case, {'got': got, 'expected': exp})
    check(-24 <= got <= 24, 'IMPs out of [-24,24]', case, {'got': got})
    neg = guard('point_difference_to_imps raises', case, f, -d)
    check(neg == -got, 'not odd: f(-d) != -f(d)', case, {'f(d)': got, 'f(-d)': neg})
    if stats is not None:
        stats.evaluated()
        if _nontrivial(d):
            stats.nt(d, case)
            stats.cls('not multiple of 10' if abs(d) % 10 else ('beyond 5000' if abs(d) > 5000 else 'threshold+-1'))
    return got


def _pair(a, b, stats=None):
    from bridge_env.score import score_to_imp, point_difference_to_imps as f
    case = {'first_score': a, 'second_score': b}
    got = guard('score_to_imp raises', case, score_to_imp, a, b)
    check(got == M.imps(a + b), 'score_to_imp(a,b) != scale(a+b)', case, {'got': got, 'expected': M.imps(a + b)})
    if stats is not None:
        stats.evaluated()
        if _nontrivial(a + b):
            stats.nt(['pair', a, b], case)
            stats.cls('two-score form')


def _mono(a, b, stats=None):
    from bridge_env.score import point_difference_to_imps as f
    lo, hi = min(a, b), max(a, b)
    case = {'lo': lo, 'hi': hi}
    fl, fh = guard('raises', case, f, lo), guard('raises', case, f, hi)
    check(fl <= fh, 'not monotone', case, {'f(lo)': fl, 'f(hi)': fh})
    if stats is not None:
        stats.evaluated()
        if fl != fh and hi - lo < 100:
            stats.nt(['mono', lo, hi], case)
            stats.cls('ordered pair straddling a threshold')


HUGE = st.one_of(st.integers(-2 ** 200, 2 ** 200),
                 st.tuples(st.sampled_from([1, -1]), st.integers(60, 1100), st.integers(-3, 3)).map(lambda t: t[0] * (2 ** t[1] + t[2])),   # around powers of two up to 2**1100 (beyond what a float can hold)
                 st.tuples(st.sampled_from([1, -1]), st.integers(20, 5000)).map(lambda t: t[0] * 10 ** t[1]))
SCORES = st.one_of(st.integers(-8000, 8000), st.integers(-760, 760).map(lambda x: x * 10), HUGE)
NEAR = st.builds(lambda t, d, s: s * (t + d), st.sampled_from(M.THRESHOLDS), st.integers(-12, 12),
                 st.sampled_from([1, -1]))


def _p_imps(B):
    import importlib
    sc = importlib.import_module('bridge_env.score')
    return [lambda: [sc.point_difference_to_imps(d) for d in (-15, 20, 4000, -3995)] + [sc.score_to_imp(620, 620)],
            lambda: [sc.point_difference_to_imps(d) for d in (15, -20, 10 ** 30, 745)] + [sc.score_to_imp(5200, -4600)]]


def concurrent_programs():
    from vf.props import _concurrent as CC
    return {'IMP conversions': (_p_imps, CC.same_as_alone, ('/bridge_env/score.py',))}


def run_shard(spec, seed, tier, stats):
    fails = {}
    k = spec['kind']
    if k == 'concurrent':
        from vf.props import _concurrent as CC
        try:
            for name, (prog, oracle, tr) in concurrent_programs().items():
                CC.explore(name, prog, oracle, stats, bound=1, orders=(0, 1), trace=tr, shard=spec['shard'], of=spec['of'])
        except Violation as v:
            return [v]
        return []
    if k == 'pow2':
        # every machine-integer boundary, completely: +-(2**k + j) for k = 0..1100, j = -3..3, as a difference, as the sum of two
        # halves and as a neighbour pair for monotonicity
        for e in range(0, 1101):
            for j in range(-3, 4):
                for sgn in (1, -1):
                    d = sgn * (2 ** e + j)
                    try:
                        _one(d, stats)
                        _pair(d // 2, d - d // 2, stats)
                        _mono(d - 1, d, stats)
                    except Violation as v:
                        fails.setdefault(v.clause, v)
        stats.cls('machine-integer boundaries +-(2**k + j), k <= 1100, |j| <= 3: complete')
        return list(fails.values())
    if k == 'range':
        from bridge_env.score import point_difference_to_imps as f
        prev = None
        for d in list(range(spec['lo'], spec['hi'] + 1)) + ([None] + list(range(spec['hi'], spec['lo'] - 1, -7)) if spec.get('again', True) else []):
            if d is None:        # second, descending strided pass over the same range: answers must not depend on earlier calls
                be.stir(seed)    # ... nor on unrelated library activity in between
                prev = None
                stats = None
                continue
            try:
                got = _one(d, stats)
                if stats is None:
                    continue
                if prev is not None and prev > got:
                    raise Violation('not monotone', {'lo': d - 1, 'hi': d}, {'f(lo)': prev, 'f(hi)': got})
                prev = got
            except Violation as v:
                fails.setdefault(v.clause, v)
                prev = None
        return list(fails.values())
    if k == 'big':
        v = run_hypothesis(lambda d: _one(d, stats), {'d': st.one_of(SCORES, NEAR)}, seed, spec['n'], tier == 'thorough')
    elif k == 'pairs':
        # pairs: independent, equal (a, a), opposite (a, -a) and near-opposite scores
        pair = st.one_of(st.tuples(st.one_of(SCORES, NEAR), st.one_of(SCORES, NEAR, st.just(0))),
                         st.one_of(SCORES, NEAR).map(lambda a: (a, a)), st.one_of(SCORES, NEAR).map(lambda a: (a, -a)),
                         st.tuples(SCORES, st.integers(-30, 30)).map(lambda t: (t[0], t[1] - t[0])))
        v = run_hypothesis(lambda ab: _pair(ab[0], ab[1], stats), {'ab': pair}, seed, spec['n'], tier == 'thorough')
    else:
        v = run_hypothesis(lambda a, d: _mono(a, a + d, stats),
                           {'a': st.one_of(SCORES, NEAR), 'd': st.one_of(st.integers(0, 30), st.integers(0, 10 ** 6))},
                           seed, spec['n'], tier == 'thorough')
    return [v] if v else []


def replay(rec):
    from vf.common.core import unbig
    c = {k: unbig(v) for k, v in rec['case'].items()}
    rec = dict(rec, case=c)
    if 'concurrent_program' in c:
        from vf.props import _concurrent as CC
        return CC.replay(rec, concurrent_programs())
    try:
        if 'diff' in c:
            _one(c['diff'])
        elif 'first_score' in c:
            _pair(c['first_score'], c['second_score'])
        else:
            _mono(c['lo'], c['hi'])
    except Violation as v:
        return v
    return None
