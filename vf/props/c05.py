"""C05 - only the seat on turn can play, only a card it holds; cards are conserved."""
import copy
from hypothesis import strategies as st
from vf.common.core import Violation, check, guard, run_hypothesis
from vf.common import be
from vf.model import auction as A, play as P
from vf.props import _play as PL
from vf.props.c04 import parse_board_case, _parse_cards

ID = 'C05'
LEVEL = 'fault_enumeration'
RULE = ('C04 boards (generated deal, contract, 52 plays incl. revokes) with fault injection: at generated positions '
        '(every one of the 53 positions 0..52 is hit across examples; 3-10 positions per board, always including '
        'position 52 = after the last card) ALL applicable faults are injected: out-of-turn play by each other seat '
        'of its lowest and highest held card, on-turn play of the lowest/highest card held by another seat, on-turn '
        'play of the first/last card already played, any play after card 52. On PlayingPhaseWithHands and on '
        'ObservedPlayingPhase for each of the 4 observer seats (only the faults an observer can detect: own turn, '
        'dummy\'s turn after disclosure, any out-of-turn play). Oracle: the play raises an Exception and hands, played '
        'cards, turn, leader, trick number, counts, history and the led-suit view equal deep snapshots; after each '
        'accepted play hands + played cards partition the 52 cards and len(played) = number of plays; all hands '
        'empty after 52. evaluations = injected faults + accepted plays. Non-trivial = board with >=1 refused play '
        'at a position > 1; distinct by (deal, contract, fault positions, first 8 cards).')
ASSUMPTIONS = ['an observer cannot verify plays from the two concealed hands; those are not demanded']


def plan(tier):
    n, per = (16, 250) if tier == 'quick' else (16, 2500)
    return [{'kind': 'faults', 'n': per} for _ in range(n)]


def _board(bid, owner, declarer, dbl, vul, plays, positions, stats=None):
    positions = set(positions) | {52}
    other = other_room(bid, owner, declarer, vul, plays)
    b = PL.Board(owner, (bid, declarer, dbl, vul), observers=True)
    cards, _ = PL.script_cards(owner, declarer, bid % 5, plays)
    if other is not None:
        b.case = (lambda f: lambda extra=None: dict(f(extra), other_room_played_first=other))(b.case)
        if stats is not None:
            stats.cls('boards played after the same deal was begun in the other room')
    b.check_conservation()
    nf = 0
    for i in range(53):
        if i in positions:
            for (c, s, kind) in PL.fault_candidates(b):
                b.refuse(b.env, c, s, kind)
                nf += 1
                if stats is not None:
                    stats.evaluated()
                    stats.cls(f'table manager: {kind}')
            for o, ob in enumerate(b.obs):
                for (c, s, kind) in PL.fault_candidates(b, observer=o):
                    b.refuse(ob, c, s, kind, who=f'observer {A.SEATS[o]}')
                    nf += 1
                    if stats is not None:
                        stats.evaluated()
                        stats.cls(f'observer: {kind}' + (' (dummy turn)' if s == b.m.dummy and s != o and s == b.m.turn else ''))
            if stats is not None:
                stats.cls(f'fault position {"0" if i == 0 else "1" if i == 1 else "2-4" if i <= 4 else "5-51" if i < 52 else "52"}')
        if i < 52:
            if i in positions and i % 2 == 0:
                # a deep copy of a board in progress is an independent board: playing on the copy must not move a card
                # of the original (search and learning code forks environments this way)
                case = b.case({'fork_at': i})
                clone = guard('deepcopy of a board in progress raises', case, copy.deepcopy, b.env)
                guard('a deep copy of the table manager rejected the play the original accepts', case,
                      clone.play_card_by_player, be.CARD[cards[i]], be.SEAT[b.m.turn])
                b.check_conservation()
                if stats is not None:
                    stats.cls('forks: play continued on a deep copy, original re-checked')
            b.play(cards[i])
            b.check_conservation()
            _check_observer_hands(b)
            if stats is not None:
                stats.evaluated()
    if stats is not None and any(p > 1 for p in positions):
        stats.nt([bid, declarer, owner, sorted(positions), cards[:8]],
                 {'contract': A.call_name(bid), 'declarer': A.SEATS[declarer], 'fault_positions': sorted(positions), 'faults': nf}
                 if bid in (0, 9, 22) else None)


def other_room(bid, owner, declarer, vul, plays):
    """One board in three: the same deal is first begun at another table of the same process (other contract and declarer,
    1-6 cards played, then left) - every table owns its cards."""
    if (bid + declarer) % 3:
        return None
    n = 1 + (bid * 7 + declarer) % 6
    bid0, decl0 = (bid + 7) % 35, (declarer + 1) % 4
    b0 = PL.Board(owner, (bid0, decl0, 0, vul), observers=True)
    for c in PL.script_cards(owner, decl0, bid0 % 5, plays)[0][:n]:
        b0.play(c)
    return n


def _check_observer_hands(b):
    for o, ob in enumerate(b.obs):
        case = b.case({'observer': A.SEATS[o]})
        got = sorted(be.CARD_IDX[c] for c in ob.hand)
        check(got == sorted(b.hands[o]), "observer's own hand is not the original minus its plays", case,
              {'got': PL.fmt_cards(got)})
        if o != b.m.dummy and len(b.cards) >= 1:
            dh = ob.dummy_hand
            got = None if dh is None else sorted(be.CARD_IDX[c] for c in dh)
            check(got == sorted(b.hands[b.m.dummy]), "observer's dummy hand is not dummy's original minus its plays", case,
                  {'got': got})
        used = sorted(be.CARD_IDX[c] for c in ob.used_cards)
        check(used == sorted(b.cards), "observer's played cards are not exactly the accepted plays", case)


POSITIONS = st.lists(st.integers(0, 52), min_size=3, max_size=10, unique=True)


def run_shard(spec, seed, tier, stats):
    v = run_hypothesis(lambda bid, owner, declarer, dbl, vul, plays, positions:
                       _board(bid, owner, declarer, dbl, vul, plays, positions, stats),
                       {'bid': st.integers(0, 34), 'owner': PL.DEAL, 'declarer': st.integers(0, 3), 'dbl': st.integers(0, 2),
                        'vul': st.sampled_from(be.VUL_NAMES), 'plays': PL.PLAYS, 'positions': POSITIONS},
                       seed, spec['n'], tier == 'thorough')
    return [v] if v else []


def replay(rec):
    """Re-executes the board up to the failing point and injects every applicable fault at every position."""
    c = rec['case']
    try:
        owner, contract = parse_board_case(c)
        if c.get('other_room_played_first'):
            other_room(contract[0], owner, contract[1], contract[3], [(True, 0)] * 52)
        b = PL.Board(owner, contract, observers=True)
        cards = _parse_cards(c['played'])

        def inject():
            for (cc, s, kind) in PL.fault_candidates(b):
                b.refuse(b.env, cc, s, kind)
            for o, ob in enumerate(b.obs):
                for (cc, s, kind) in PL.fault_candidates(b, observer=o):
                    b.refuse(ob, cc, s, kind, who=f'observer {A.SEATS[o]}')
        b.check_conservation()
        inject()
        for x in cards:
            b.play(x)
            b.check_conservation()
            _check_observer_hands(b)
            inject()
    except Violation as v:
        return v
    return None
