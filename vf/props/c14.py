"""C14 - every deal survives every encoding round trip."""
import random
from hypothesis import strategies as st
from vf.common.core import Violation, check, guard, run_hypothesis
from vf.common import be
from vf.model import auction as A, play as P, pbn as MP
from vf.props import _play as PL

ID = 'C14'
LEVEL = 'exploration'
RULE = ('deals from Hypothesis (sorted deck + drawn transpositions => voids/long suits; uniform permutations), partial deals '
        'where a drawn subset of hands is empty, each with all 4 first seats and a drawn numpy dtype (int32 default, int64, '
        'int8, uint8, float32, bool, float64, int16); plus Hands.generate_random_hands() after random.seed(drawn k). '
        'Oracle: convert_pbn(to_pbn(first)), convert_binary(to_binary()), convert_np_binary(to_np_binary(dtype)) and '
        'hands_parser(convert_deal()) each equal the original four hands; to_pbn text == independent canonical '
        'renderer (S.H.D.C, ranks high to low, void empty, unknown hand "-"); binary vectors are 52 slots of 0/1 with '
        'slot = card index; JSON lists ascend by card index; the random dealer returns 4 disjoint 13-card hands '
        'covering the pack; every decoded deal is re-encoded in all four formats (chained round trips); every decoder is also called a second time after the first result was modified (cards added and removed, as the playing phases do): hands of one deal must not alias each other and the second decode must equal the original. Concurrent use: pairs of calls (two random dealers; two PBN round trips; the same partial deal text decoded twice with the result modified in between; tuple and numpy round trips) run as tasks of the schedule-owning kernel with a scheduling point at every source line of hands.py, on a freshly imported package per schedule; ALL schedules with <= 1 deviation from call-after-call execution are enumerated and each call must return what it returns alone (the dealer: a valid deal). evaluations = round trips + schedules. Non-trivial = deal with >=1 void or a partial deal, written '
        'from a first seat other than N; distinct by (deal, first seat).')
ASSUMPTIONS = ['vf/model/pbn.py renders the PBN 2.1 deal notation']

DTYPES = ['int32', 'int64', 'int8', 'uint8', 'float32', 'bool', 'float64', 'int16']


def plan(tier):
    n, per = (12, 1800) if tier == 'quick' else (16, 12000)
    of = 8
    return [{'kind': 'deals', 'n': per} for _ in range(n)] + [{'kind': 'random_dealer', 'n': 300 if tier == 'quick' else 20000}] + \
        [{'kind': 'concurrent', 'bound': 1, 'shard': i, 'of': of} for i in range(of)]


def _same(h, hands):
    return all({be.CARD_IDX[c] for c in h[be.SEAT[s]]} == set(hands[s]) for s in range(4))


def _independent(decode, arg, hands, what, case):
    """The decoded hands are the caller's to change (the playing phases remove played cards from them): changing one
    decoded hand must change neither another hand of the same deal nor what the next decode of the same text returns."""
    back = decode(arg)
    for s in range(4):
        hs = back[be.SEAT[s]]
        spare = next(c for c in range(52) if c not in hands[s])
        hs.add(be.CARD[spare])
        for c in hands[s][:2]:
            hs.discard(be.CARD[c])
        for o in range(4):
            if o > s:
                check({be.CARD_IDX[c] for c in back[be.SEAT[o]]} == set(hands[o]),
                      f'{what}: changing one decoded hand changed another hand of the same deal', case, {'changed': A.SEATS[s], 'affected': A.SEATS[o]})
    again = decode(arg)
    check(_same(again, hands), f'{what}: decoding the same encoding again gives a different deal after the first result was used',
          case, {'got': be.hands_to_ints(again)})


def _chain(back, hands, first, what, case):
    """A decoded deal is a deal like any other: re-encoding it in every format gives the encodings of the original."""
    import numpy as np
    from bridge_env.data_handler.json_handler.writer import convert_deal
    case = dict(case, chained_from=what)
    t = guard(f'to_pbn raises on a deal decoded from {what}', case, back.to_pbn, be.SEAT[first])
    check(t == MP.deal_text(hands, first), f'deal decoded from {what} is re-encoded differently (PBN)', case, {'got': t})
    b2 = guard(f'to_binary raises on a deal decoded from {what}', case, back.to_binary)
    check(all([int(x) for x in b2[be.SEAT[s]]] == [1 if c in hands[s] else 0 for c in range(52)] for s in range(4)),
          f'deal decoded from {what} is re-encoded differently (binary)', case)
    n2 = guard(f'to_np_binary raises on a deal decoded from {what}', case, back.to_np_binary)
    check(all([int(x) for x in n2[be.SEAT[s]]] == [1 if c in hands[s] else 0 for c in range(52)] for s in range(4)),
          f'deal decoded from {what} is re-encoded differently (numpy)', case)
    j2 = guard(f'convert_deal raises on a deal decoded from {what}', case, convert_deal, back)
    check(all(j2[A.SEATS[s]] == PL.fmt_cards(hands[s]) for s in range(4)), f'deal decoded from {what} is re-encoded differently (JSON)', case)


def _deal(owner, empty, dtype, stats=None):
    import numpy as np
    from bridge_env import Hands
    from bridge_env.data_handler.json_handler.writer import convert_deal
    from bridge_env.data_handler.json_handler.parser import hands_parser
    owner = [None if s in empty else s for s in owner]
    hands = [sorted(c for c in range(52) if owner[c] == s) for s in range(4)]
    if sum(len(h) for h in hands[:2]) % 8 == 0:
        be.stir(len(hands[0]))       # unrelated library activity (random deals, plays, formats) in between
    how = (sum(hands[0]) + 3 * len(hands[1]) + len(empty)) % 12
    how = how if how < len(be.HOW) else 0
    H = be.hands_from_owner(owner, how)
    base = {'deal': {A.SEATS[s]: PL.fmt_cards(hands[s]) for s in range(4)}}
    if how:
        base['deal_object_made_by'] = be.HOW[how]
    for first in range(4):
        case = dict(base, first=A.SEATS[first])
        text = guard('to_pbn raises', case, H.to_pbn, be.SEAT[first])
        exp = MP.deal_text(hands, first)
        check(text == exp, 'PBN deal text is not canonical', case, {'got': text, 'expected': exp})
        back = guard('convert_pbn raises on to_pbn output', case, Hands.convert_pbn, text)
        check(_same(back, hands), 'PBN round trip changed the deal', case, {'text': text, 'got': be.hands_to_ints(back)})
        if first == len(hands[0]) % 4:
            _chain(back, hands, (first + 1) % 4, 'PBN', case)
            guard('convert_pbn raises on to_pbn output', case, _independent, Hands.convert_pbn, text, hands, 'PBN', dict(case, text=text))
        if stats is not None:
            stats.evaluated()
            voids = any(len(h) == 13 and len({c // 13 for c in h}) < 4 for h in hands)
            if (voids or empty) and first != 0:
                stats.nt([owner, first], dict(case, pbn=text) if first == 2 and len(empty) in (0, 2) else None)
    case = dict(base)
    b = guard('to_binary raises', case, H.to_binary)
    for s in range(4):
        v = b[be.SEAT[s]]
        check(isinstance(v, tuple) and len(v) == 52 and [int(x) for x in v] == [1 if c in hands[s] else 0 for c in range(52)],
              'binary tuple is not the 52-slot indicator of the hand', case, {'seat': A.SEATS[s]})
    back = guard('convert_binary raises', case, Hands.convert_binary, b)
    check(_same(back, hands), 'binary tuple round trip changed the deal', case, {'got': be.hands_to_ints(back)})
    _chain(back, hands, len(hands[1]) % 4, 'binary tuples', case)
    guard('convert_binary raises', case, _independent, Hands.convert_binary, b, hands, 'binary tuples', case)
    case = dict(base, dtype=dtype)
    nb = guard('to_np_binary raises', case, H.to_np_binary, getattr(np, dtype) if dtype != 'bool' else np.bool_)
    for s in range(4):
        v = nb[be.SEAT[s]]
        check(v.shape == (52,) and [int(x) for x in v] == [1 if c in hands[s] else 0 for c in range(52)],
              'numpy vector is not the 52-slot indicator of the hand', case, {'seat': A.SEATS[s]})
    back = guard('convert_np_binary raises', case, Hands.convert_np_binary, nb)
    check(_same(back, hands), 'numpy round trip changed the deal', case, {'got': be.hands_to_ints(back)})
    _chain(back, hands, len(hands[2]) % 4, 'numpy vectors', case)
    guard('convert_np_binary raises', case, _independent, Hands.convert_np_binary, nb, hands, 'numpy vectors', case)
    nb0 = guard('to_np_binary raises', base, H.to_np_binary)
    check(str(nb0[be.SEAT[0]].dtype) == 'int32', 'default numpy dtype is not int32', base)
    case = dict(base)
    j = guard('convert_deal raises', case, convert_deal, H)
    for s in range(4):
        got = j[A.SEATS[s]]
        check(got == PL.fmt_cards(hands[s]), 'JSON card list is not ascending by card index', case, {'seat': A.SEATS[s], 'got': got})
    back = guard('hands_parser raises', case, hands_parser, j)
    check(_same(back, hands), 'JSON round trip changed the deal', case)
    _chain(back, hands, len(hands[3]) % 4, 'JSON card lists', case)
    guard('hands_parser raises', case, _independent, hands_parser, j, hands, 'JSON card lists', case)
    check(H == be.hands_from_owner(owner), 'Hands equality', case)
    check(_same(H, hands), 'an encoder modified the deal', case)
    if stats is not None:
        stats.evaluated(4)
        stats.cls('partial deals' if empty else 'full deals')
        stats.cls('deal object made by: ' + be.HOW[how])
        stats.cls(f'dtype {dtype}')
        for f in PL.deal_features([o if o is not None else 0 for o in owner]) if not empty else ():
            stats.cls('deal with ' + f)


def _random_dealer(k, stats=None):
    from bridge_env import Hands
    random.seed(k)
    case = {'random_seed': k}
    H = guard('generate_random_hands raises', case, Hands.generate_random_hands)
    hs = be.hands_to_ints(H)
    check(all(len(h) == 13 for h in hs), 'random dealer: a hand does not have 13 cards', case, {'sizes': [len(h) for h in hs]})
    check(sorted(c for h in hs for c in h) == list(range(52)), 'random dealer: hands do not cover the pack disjointly', case)
    if stats is not None:
        stats.evaluated()
        stats.cls('random dealer calls')
        stats.nt(['r', hs])


# ---------------------------------------------------------------------------------------
# concurrent use (line-level schedules, vf/props/_concurrent.py)

PBN1 = 'N:4.KJ32.842.AQ743 JT987.Q876.AK5.2 AK532.T.JT6.T985 Q6.A954.Q973.KJ6'
PBN2 = 'E:KQ9752.K74.8742. T.A93.QT93.KJ873 J6.T852.AJ65.QT9 A843.QJ6.K.A6542'
PBN3 = 'S:AKQJT98765432... .AKQJT98765432.. - -'


def _plain(B, H):
    return tuple(tuple(sorted(int(c) for c in H[p])) for p in B.Player)


def _p_dealers(B):
    return [lambda: _plain(B, B.Hands.generate_random_hands())] * 2


def _p_pbn(B):
    return [lambda: B.Hands.convert_pbn(PBN1).to_pbn(B.Player.S), lambda: B.Hands.convert_pbn(PBN2).to_pbn(B.Player.W)]


def _p_same_text(B):
    def f():
        H = B.Hands.convert_pbn(PBN3)
        H[B.Player.W].add(B.Card(2, B.Suit.C))            # decoded hands are the caller's to change
        return _plain(B, B.Hands.convert_pbn(PBN3)), H.to_pbn(B.Player.S)
    return [f, lambda: _plain(B, B.Hands.convert_pbn(PBN3))]


def _p_vectors(B):
    def a():
        H = B.Hands.convert_pbn(PBN1)
        return _plain(B, B.Hands.convert_binary(H.to_binary())), _plain(B, B.Hands.convert_np_binary(H.to_np_binary()))

    def b():
        H = B.Hands.convert_pbn(PBN2)
        return _plain(B, B.Hands.convert_np_binary(H.to_np_binary())), _plain(B, B.Hands.convert_binary(H.to_binary()))
    return [a, b]


def _valid_deals(res, expected):
    for i, r in enumerate(res):
        if not (isinstance(r, tuple) and len(r) == 4 and all(len(h) == 13 for h in r) and sorted(c for h in r for c in h) == list(range(52))):
            return ('the random dealer returned something that is not four disjoint 13-card hands covering the pack', {'call': i, 'got': repr(r)[:300]})
    return None


def concurrent_programs():
    from vf.props import _concurrent as CC
    tr = ('/bridge_env/hands.py',)
    return {'two random dealers': (_p_dealers, _valid_deals, tr), 'two PBN round trips': (_p_pbn, CC.same_as_alone, tr),
            'same partial deal text decoded twice': (_p_same_text, CC.same_as_alone, tr),
            'binary and numpy round trips': (_p_vectors, CC.same_as_alone, tr)}


def run_concurrent(spec, stats):
    from vf.props import _concurrent as CC
    try:
        for name, (prog, oracle, tr) in concurrent_programs().items():
            CC.explore(name, prog, oracle, stats, bound=spec['bound'], orders=(0, 1), trace=tr, shard=spec['shard'], of=spec['of'])
    except Violation as v:
        return [v]
    return []


EMPTY = st.one_of(st.just(frozenset()), st.just(frozenset()), st.frozensets(st.integers(0, 3), min_size=1, max_size=4))


def run_shard(spec, seed, tier, stats):
    shrink = tier == 'thorough'
    if spec['kind'] == 'concurrent':
        return run_concurrent(spec, stats)
    if spec['kind'] == 'deals':
        v = run_hypothesis(lambda owner, empty, dtype: _deal(owner, empty, dtype, stats),
                           {'owner': PL.DEAL, 'empty': EMPTY, 'dtype': st.sampled_from(DTYPES)}, seed, spec['n'], shrink)
    else:
        v = run_hypothesis(lambda k: _random_dealer(k, stats), {'k': st.integers(0, 2 ** 32)}, seed, spec['n'], shrink)
    return [v] if v else []


def replay(rec):
    c = rec['case']
    if 'concurrent_program' in c:
        from vf.props import _concurrent as CC
        return CC.replay(rec, concurrent_programs())
    try:
        if 'random_seed' in c:
            _random_dealer(c['random_seed'])
            return None
        names = [P.card_name(i) for i in range(52)]
        owner = [None] * 52
        for s, seat in enumerate(A.SEATS):
            for x in c['deal'][seat]:
                owner[names.index(x)] = s
        empty = frozenset(s for s in range(4) if not c['deal'][A.SEATS[s]])
        full = [o if o is not None else 0 for o in owner]
        for dt in ([c['dtype']] if 'dtype' in c else DTYPES):
            _deal(owner if not empty else owner, frozenset(), dt)
    except Violation as v:
        return v
    return None
