"""C17 - board-settings files are read back as the boards that were written, in order (JSON and PBN)."""
import io
import os
import tempfile
from hypothesis import strategies as st
from vf.gen.perm import permutations
from vf.common.core import Violation, check, guard, run_hypothesis, VERIF_ROOT
from vf.common import be
from vf.model import auction as A, play as P, pbn as MP
from vf.gen import boards as GB
from vf.props import _play as PL
from vf.props.c12 import mk_dda

ID = 'C17'
LEVEL = 'exploration'
RULE = ('JSON: 0-10 boards (ids any Unicode text or the property alphabet, dealer, vulnerability, deal, optional dda) through '
        'JsonBoardSettingWriter -> JsonParser.parse_board_settings (and validated against the shipped board-settings schema). '
        'PBN: boards rendered by the independent renderer vf/model/pbn.py with generated layout - deal written from any first '
        'seat, permuted tag order, 0-4 extra tags, an optional table tag followed by rows, 0-3 "%" header lines with/without a '
        'following blank line, LF or CRLF, runs of 1-3 blank or whitespace-only lines between games, 0-2 before the first, '
        '0-3 after the last, final newline present or not, every accepted vulnerability spelling - fed as StringIO (CR '
        'visible) and as a real text-mode file (universal newlines); ids and values over letters, digits, space and '
        ". , - _ / ( ) ' + # : (runs of blanks and leading/trailing blanks included). Oracle: the parsed list equals the "
        'boards in order on deal, dealer, vulnerability, id (and dda for JSON). Non-trivial = PBN file with >=2 games and at '
        'least one of: blank-line run >=2, leading blank, CRLF, header, permuted tags, table rows; or a JSON file with >=2 '
        'boards one of which has a dda; distinct by text hash.')
ASSUMPTIONS = ['vf/model/pbn.py renders admissible PBN 2.1 import files; a whitespace-only line counts as an empty line '
               '(the parser\'s own documented notion of a semi-empty line)']

ALPHA = GB.PBN_ALPHABET
NAME = st.one_of(
    st.text(alphabet=ALPHA, min_size=1, max_size=12),
    st.text(alphabet='ab 1', min_size=1, max_size=8),          # runs of blanks, leading/trailing blanks
    st.integers(1, 999).map(str),
    st.sampled_from(['#', '##', '?', '-', '*', '+', '#1', '1#', '=', '^']),     # values that mean something special elsewhere in PBN
    st.sampled_from(['007', '+5', '-3', '1_0', ' 7', '7 ', '0', '00', '1e3', '0x10', '1.0', 'None', 'null', 'true', 'nan']),   # look like numbers / constants
)
TAGNAME = st.text(alphabet='abcdefghijklmnopqrstuvwxyzABCDEFGHIJKLMNOPQRSTUVWXYZ', min_size=1, max_size=8).map(
    lambda s: 'X' + s).filter(lambda s: s not in ('Board', 'Dealer', 'Vulnerable', 'Deal'))
BLANK = st.sampled_from(['', '', '', ' ', '  ', '\t', ' \t '])
ROW = st.text(alphabet='NESWCDHT0123456789 -+', min_size=1, max_size=12).filter(lambda s: s.strip() != '')


# an additional tag whose line is exactly as long as a PBN line may be (255 characters), or a few characters shorter
LONG_TAG = st.tuples(TAGNAME, st.integers(0, 5), st.text(alphabet=ALPHA, min_size=260, max_size=260)).map(
    lambda t: (t[0], t[2][:255 - t[1] - len(f'[{t[0]} ""]')]))


def pbn_board():
    return st.fixed_dictionaries({
        'id': NAME, 'dealer': st.integers(0, 3), 'vul': st.sampled_from(GB.VULS), 'spell': st.integers(0, 2),
        'owner': PL.DEAL, 'first': st.integers(0, 3),
        'order': permutations(list(range(8))),
        'extra': st.lists(st.one_of(st.tuples(TAGNAME, st.text(alphabet=ALPHA, max_size=15)), LONG_TAG), max_size=4, unique_by=lambda t: t[0]),
        'table': st.one_of(st.none(), st.tuples(TAGNAME.map(lambda s: s + 'Table'), st.text(alphabet=ALPHA + ';\\', max_size=20),
                                                st.lists(ROW, max_size=5))),
    })


LAYOUT = st.fixed_dictionaries({
    'header': st.lists(st.text(alphabet=ALPHA, max_size=20).map(lambda s: ' ' + s), max_size=3),
    'header_blank': st.booleans(),
    'nl': st.sampled_from(['\n', '\n', '\r\n']),
    'lead': st.lists(BLANK, max_size=2),
    'sep': st.lists(st.lists(BLANK, min_size=1, max_size=3), min_size=1, max_size=3),
    'trail': st.lists(BLANK, max_size=3),
    'final_nl': st.booleans(),
})


def plan(tier):
    n, per = (12, 1200) if tier == 'quick' else (12, 8000)
    m, perm = (4, 800) if tier == 'quick' else (4, 5000)
    sh = [{'kind': 'pbn', 'n': per} for _ in range(n)] + [{'kind': 'json', 'n': perm} for _ in range(m)]
    if tier == 'thorough':       # coverage-guided campaigns on the same tests (atheris), own seed and corpus each
        sh += [{'kind': 'fuzz', 'target': 'pbn', 'runs': 25000} for _ in range(6)] + [{'kind': 'fuzz', 'target': 'json', 'runs': 15000} for _ in range(2)]
    return sh


def to_model_board(b):
    sp = MP.VUL_SPELLINGS[b['vul']]
    return {'id': b['id'], 'dealer': b['dealer'], 'vul_text': sp[b['spell'] % len(sp)], 'hands': PL.hands_of(b['owner']),
            'first': b['first'], 'order': list(b['order']), 'extra': [tuple(x) for x in b['extra']],
            'table': None if b['table'] is None else (b['table'][0], b['table'][1], list(b['table'][2]))}


def _compare(got, boards, case, via):
    check(len(got) == len(boards), f'{via}: number of boards read differs from the number written', case,
          {'read': len(got), 'written': len(boards), 'ids_read': [g.board_id for g in got][:8]})
    for i, (g, b) in enumerate(zip(got, boards)):
        rc = dict(case, board=i)
        check(g.board_id == b['id'], f'{via}: board id read back differently', rc, {'got': g.board_id, 'written': b['id']})
        check(g.dealer is be.SEAT[b['dealer']], f'{via}: dealer read back differently', rc, {'got': repr(g.dealer)})
        check(g.vul is be.VUL[b['vul']], f'{via}: vulnerability read back differently', rc, {'got': repr(g.vul)})
        check(be.hands_to_ints(g.hands) == PL.hands_of(b['owner']), f'{via}: deal read back differently', rc)


def check_pbn(boards, layout, stats=None, tmpdir=None):
    from bridge_env.data_handler.pbn_handler.parser import PbnParser
    mb = [to_model_board(b) for b in boards]
    text = MP.render_import(mb, layout)
    case = {'format': 'pbn', 'text': text,
            'boards': [{'id': b['id'], 'dealer': A.SEATS[b['dealer']], 'vul': b['vul'], 'owner': ''.join('NESW'[o] for o in b['owner'])} for b in boards]}
    got = guard('PbnParser.parse_board_settings raises on an admissible import file (StringIO)', case,
                lambda: PbnParser().parse_board_settings(io.StringIO(text, newline='')))
    _compare(got, boards, case, 'PBN (StringIO)')
    for i, bs in enumerate(got):
        be.use_deal(bs.hands, i)     # the boards read are played on; the second read below must still give the boards written
    d = tmpdir or os.path.join(VERIF_ROOT, '.work', 'C17')
    os.makedirs(d, exist_ok=True)
    fd, path = tempfile.mkstemp(suffix='.pbn', dir=d)
    try:
        with os.fdopen(fd, 'wb') as f:
            f.write(text.encode('ascii'))
        with open(path, 'r') as fp:
            got = guard('PbnParser.parse_board_settings raises on an admissible import file (text file)', case,
                        lambda: PbnParser().parse_board_settings(fp))
    finally:
        os.unlink(path)
    _compare(got, boards, case, 'PBN (text file)')
    if stats is not None:
        stats.evaluated()
        feats = []
        if any(len(f'[{n} "{v}"]') >= 250 for b in boards for n, v in b['extra']):
            feats.append('tag line of 250-255 characters')
        if any(len(s) >= 2 for s in layout['sep']) and len(boards) >= 2:
            feats.append('blank-line run >=2 between games')
        if layout['lead'] or (layout['header'] and layout['header_blank']):
            feats.append('blank line before the first game')
        if len(layout['trail']) >= 2 and boards:
            feats.append('>=2 trailing blank lines')
        if layout['nl'] == '\r\n':
            feats.append('CRLF')
        if layout['header']:
            feats.append('header lines')
        if any(list(b['order'])[:4] != [0, 1, 2, 3] for b in boards):
            feats.append('permuted tags')
        if any(b['table'] and b['table'][2] for b in boards):
            feats.append('table rows')
        if any('  ' in b['id'] or b['id'] != b['id'].strip() for b in boards):
            feats.append('id with a run of blanks or leading/trailing blank')
        if not layout['final_nl']:
            feats.append('no final newline')
        for f in feats:
            stats.cls('pbn: ' + f)
        stats.cls(f'pbn: {min(len(boards), 3)}{"+" if len(boards) >= 3 else ""} games')
        if len(boards) >= 2 and feats:
            stats.nt(text, {'text': text[:400]} if len(boards) == 2 and len(text) < 700 else None)


def check_json(boards, stats=None):
    import json
    from bridge_env.data_handler.json_handler.writer import JsonBoardSettingWriter
    from bridge_env.data_handler.json_handler.parser import JsonParser
    from vf.props.c12 import validator
    case = {'format': 'json', 'boards': [{'id': b['board_id'], 'dealer': A.SEATS[b['dealer']], 'vul': b['vul'], 'dda': b['dda'],
                                          'owner': ''.join('NESW'[o] for o in b['owner'])} for b in boards]}
    buf = io.StringIO()

    def write():
        with JsonBoardSettingWriter(buf) as w:
            for b in boards:
                w.write(board_id=b['board_id'], dealer=be.SEAT[b['dealer']], deal=be.hands_from_owner(b['owner']),
                        vul=be.VUL[b['vul']], dda=mk_dda(b['dda']))
    guard('JsonBoardSettingWriter raises', case, write)
    text = buf.getvalue()
    try:
        doc = json.loads(text)
    except ValueError as e:
        raise Violation('written board-settings file is not valid JSON', case, {'error': str(e)})
    errs = list(validator()[1].iter_errors(doc))
    check(not errs, 'written board-settings file violates the published schema', case, {'message': errs[0].message[:200] if errs else ''})
    got = guard('JsonParser.parse_board_settings raises on a written file', case, JsonParser().parse_board_settings, io.StringIO(text))
    _compare(got, [dict(b, id=b['board_id']) for b in boards], case, 'JSON')
    for i, (g, b) in enumerate(zip(got, boards)):
        check(g.dda == mk_dda(b['dda']), 'JSON: double-dummy table read back differently', dict(case, board=i), {'got': repr(g.dda)[:200]})
    for i, g in enumerate(got):
        be.use_deal(g.hands, i)
    again = guard('JsonParser.parse_board_settings raises on a written file', case, JsonParser().parse_board_settings, io.StringIO(text))
    _compare(again, [dict(b, id=b['board_id']) for b in boards], case, 'JSON (second read, after the boards of the first were played on)')
    if stats is not None:
        stats.evaluated()
        stats.cls(f'json: {min(len(boards), 3)}{"+" if len(boards) >= 3 else ""} boards')
        if len(boards) >= 2 and any(b['dda'] is not None for b in boards):
            stats.nt(text, {'text': text[:300]} if len(boards) == 2 else None)


def fuzz_target(name, stats, d=None):
    """(test function, strategies) - shared by the in-process Hypothesis tier and the atheris tier."""
    if name == 'pbn':
        d = d or tempfile.mkdtemp(prefix='tmp-', dir=_workdir())
        return (lambda boards, layout: check_pbn(boards, layout, stats, d),
                {'boards': st.one_of(st.lists(pbn_board(), min_size=0, max_size=1), st.lists(pbn_board(), min_size=2, max_size=5),
                                     st.lists(pbn_board(), min_size=2, max_size=5)), 'layout': LAYOUT})
    names = st.one_of(st.text(max_size=12), NAME)
    return (lambda boards: check_json(boards, stats), {'boards': st.lists(GB.setting(names), min_size=0, max_size=10)})


def run_shard(spec, seed, tier, stats):
    shrink = tier == 'thorough'
    if spec['kind'] == 'fuzz':
        from vf.common.fuzz import run_fuzz_shard
        return run_fuzz_shard(ID, spec, seed, stats)
    if spec['kind'] == 'pbn':
        d = tempfile.mkdtemp(prefix='tmp-', dir=_workdir())
        try:
            fn, strategies = fuzz_target('pbn', stats, d)
            v = run_hypothesis(fn, strategies, seed, spec['n'], shrink)
        finally:
            try:
                os.rmdir(d)
            except OSError:
                pass
    else:
        fn, strategies = fuzz_target('json', stats)
        v = run_hypothesis(fn, strategies, seed, spec['n'], shrink)
    return [v] if v else []


def _workdir():
    d = os.path.join(VERIF_ROOT, '.work', 'C17')
    os.makedirs(d, exist_ok=True)
    return d


def _owner(s):
    return ['NESW'.index(ch) for ch in s]


def replay(rec):
    """PBN replays carry the explicit file text and the boards it must yield."""
    c = rec['case']
    try:
        if c['format'] == 'json':
            check_json([{'board_id': b['id'], 'dealer': A.SEATS.index(b['dealer']), 'vul': b['vul'], 'dda': b['dda'],
                         'owner': _owner(b['owner'])} for b in c['boards']])
            return None
        from bridge_env.data_handler.pbn_handler.parser import PbnParser
        boards = [{'id': b['id'], 'dealer': A.SEATS.index(b['dealer']), 'vul': b['vul'], 'owner': _owner(b['owner'])} for b in c['boards']]
        text = c['text']
        got = guard('PbnParser.parse_board_settings raises on an admissible import file (StringIO)', c,
                    lambda: PbnParser().parse_board_settings(io.StringIO(text, newline='')))
        _compare(got, boards, c, 'PBN (StringIO)')
        path = os.path.join(_workdir(), f'replay-{os.getpid()}.pbn')
        try:
            with open(path, 'wb') as f:
                f.write(text.encode('ascii'))
            with open(path, 'r') as fp:
                got = guard('PbnParser.parse_board_settings raises on an admissible import file (text file)', c,
                            lambda: PbnParser().parse_board_settings(fp))
        finally:
            os.unlink(path)
        _compare(got, boards, c, 'PBN (text file)')
    except Violation as v:
        return v
    return None
