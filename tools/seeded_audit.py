#!/venv/bin/python
"""Sensitivity audit against the seeded changes kept under /verif/seeded/<name>/.

For every seeded change (patch.diff + demo.py + meta.json) this tool
  1. makes a scratch copy of /repo's HEAD outside /repo and /verif (a detached git worktree),
  2. applies the patch there,
  3. (--confirm) runs the repository's own suite (must pass) and demo.py with and without the patch
     (must fail / pass),
  4. runs the registered check(s) of the property it breaks with VERIF_REPO pointing at the copy
     (expected: exit 1 and a VIOLATION line),
  5. removes the copy,
and writes seeded/AUDIT.json + seeded/AUDIT.md.  Nothing is ever applied to /repo itself here; the
equivalent manual procedure is `git -C /repo apply seeded/<name>/patch.diff; bin/check CNN; git -C /repo checkout -- .`.

usage: tools/seeded_audit.py [--only NAME[,NAME..]] [--tier quick|thorough] [--confirm] [--also C08,C10] [--seed N]
"""
import argparse
import json
import os
import shutil
import subprocess
import sys
import time

ROOT = os.path.dirname(os.path.dirname(os.path.abspath(__file__)))
SCRATCH = os.environ.get('VERIF_SCRATCH', '/tmp/vf-audit')
PY = '/venv/bin/python'


def sh(cmd, cwd=None, env=None, timeout=3600):
    e = dict(os.environ)
    e.update(env or {})
    try:
        p = subprocess.run(cmd, cwd=cwd, env=e, shell=isinstance(cmd, str), capture_output=True, text=True, timeout=timeout)
        return p.returncode, p.stdout + p.stderr
    except subprocess.TimeoutExpired as ex:
        return 124, f'TIMEOUT after {timeout}s\n' + (ex.stdout or b'').decode('utf-8', 'replace') if isinstance(ex.stdout, bytes) else 'TIMEOUT'


def make_copy(name):
    d = os.path.join(SCRATCH, name)
    if os.path.exists(d):
        sh(['git', '-C', '/repo', 'worktree', 'remove', '--force', d])
        shutil.rmtree(d, ignore_errors=True)
    os.makedirs(SCRATCH, exist_ok=True)
    rc, out = sh(['git', '-C', '/repo', 'worktree', 'add', '--detach', d, 'HEAD'])
    if rc != 0:
        raise RuntimeError(out)
    return d


def drop_copy(d):
    sh(['git', '-C', '/repo', 'worktree', 'remove', '--force', d])
    shutil.rmtree(d, ignore_errors=True)
    sh(['git', '-C', '/repo', 'worktree', 'prune'])


def audit_one(name, a):
    sd = os.path.join(ROOT, a.dir, name)
    meta = json.load(open(os.path.join(sd, 'meta.json')))
    pid = meta['property']
    res = {'name': name, 'property': pid, 'summary': meta.get('summary', '')[:300]}
    d = make_copy(name)
    try:
        env = {'PYTHONPATH': d, 'PYTHONDONTWRITEBYTECODE': '1'}
        has_demo = os.path.isfile(os.path.join(sd, 'demo.py'))
        if a.confirm and has_demo:
            rc, out = sh([PY, os.path.join(sd, 'demo.py')], cwd=d, env=env, timeout=180)
            res['demo_clean_rc'] = rc
        rc, out = sh(['git', 'apply', os.path.join(sd, 'patch.diff')], cwd=d)
        if rc != 0:
            res['error'] = 'patch does not apply: ' + out[-300:]
            return res
        if a.confirm and has_demo:
            rc, out = sh([PY, os.path.join(sd, 'demo.py')], cwd=d, env=env, timeout=180)
            res['demo_patched_rc'] = rc
        if a.confirm:
            rc, out = sh([PY, '-m', 'pytest', '-q', '-x', '-p', 'no:cacheprovider', '--timeout=900'], cwd=d, env=env, timeout=1800)
            res['suite_patched_rc'] = rc
            res['suite_tail'] = out.strip().splitlines()[-1][-200:] if out.strip() else ''
        checks = [pid] + [c for c in (a.also.split(',') if a.also else []) if c and c != pid]
        res['checks'] = {}
        for c in checks:
            t0 = time.time()
            rc, out = sh([os.path.join(ROOT, 'bin', 'check'), c, '--tier', a.tier], cwd=ROOT,
                         env={'VERIF_REPO': d, 'VERIF_SEED': str(a.seed)}, timeout=a.timeout)
            viol = [ln for ln in out.splitlines() if ln.startswith('VIOLATION')]
            clauses = [ln.strip()[:260] for ln in out.splitlines() if ln.strip().startswith('clause=')]
            res['checks'][c] = {'rc': rc, 'violations': len(viol), 'clauses': clauses[:4], 'wall_s': round(time.time() - t0, 1),
                                'tail': out.strip().splitlines()[-1][-300:] if out.strip() else ''}
        res['caught'] = res['checks'][pid]['rc'] == 1 and res['checks'][pid]['violations'] > 0
        res['quiet'] = all(v['rc'] == 0 and v['violations'] == 0 for v in res['checks'].values())
    finally:
        drop_copy(d)
    return res


def main():
    ap = argparse.ArgumentParser()
    ap.add_argument('--only')
    ap.add_argument('--tier', default='quick')
    ap.add_argument('--confirm', action='store_true')
    ap.add_argument('--also', default='')
    ap.add_argument('--seed', type=int, default=1)
    ap.add_argument('--timeout', type=int, default=3600)
    ap.add_argument('--no-write', action='store_true')
    ap.add_argument('--jobs', type=int, default=1, help='changes audited concurrently (each check itself uses 16 processes)')
    ap.add_argument('--dir', default='seeded', help="'seeded' (breaking changes: a VIOLATION is expected) or 'benign' (property-preserving changes: the check must stay quiet)")
    a = ap.parse_args()
    names = sorted(n for n in os.listdir(os.path.join(ROOT, a.dir))
                   if os.path.isfile(os.path.join(ROOT, a.dir, n, 'patch.diff')))
    if a.only:
        want = a.only.split(',')
        names = [n for n in names if any(n == w or n.startswith(w) for w in want)]
    path = os.path.join(ROOT, a.dir, 'AUDIT.json')
    prev = {}
    if os.path.exists(path):
        prev = {r['name']: r for r in json.load(open(path))['results']}
    from concurrent.futures import ThreadPoolExecutor
    with ThreadPoolExecutor(max(1, a.jobs)) as pool:
        all_results = list(pool.map(lambda n: (n, audit_one(n, a)), names)) if a.jobs > 1 else None
    for n in names:
        r = dict(all_results)[n] if all_results is not None else audit_one(n, a)
        r['tier'] = a.tier
        r['seed'] = a.seed
        old = prev.get(n, {})
        for k in ('demo_clean_rc', 'demo_patched_rc', 'suite_patched_rc', 'suite_tail'):
            if k not in r and k in old:
                r[k] = old[k]
        prev[n] = r
        print(json.dumps({k: r.get(k) for k in ('name', 'caught', 'quiet', 'demo_clean_rc', 'demo_patched_rc', 'suite_patched_rc', 'error')}),
              {c: (v['rc'], v['wall_s']) for c, v in r.get('checks', {}).items()}, flush=True)
        for c, v in r.get('checks', {}).items():
            for cl in v['clauses'][:2]:
                print('     ', c, cl[:200], flush=True)
    if not a.no_write:
        results = [prev[k] for k in sorted(prev)]
        with open(path, 'w') as f:
            json.dump({'results': results}, f, indent=1, sort_keys=True)
            f.write('\n')
        if a.dir != 'seeded':
            with open(os.path.join(ROOT, a.dir, 'AUDIT.md'), 'w') as f:
                f.write('# Property-preserving changes vs. checks (written by tools/seeded_audit.py --dir benign): every check must stay quiet\n\n')
                f.write('| change | property | suite green with patch | checks run (exit code, seconds) | quiet |\n|---|---|---|---|---|\n')
                for r in results:
                    f.write(f"| {r['name']} | {r['property']} | {'yes' if r.get('suite_patched_rc') == 0 else r.get('suite_patched_rc')} | "
                            f"{ {c: (v['rc'], v['wall_s']) for c, v in r.get('checks', {}).items()} } | {'yes' if r.get('quiet') else '**NO**'} |\n")
            return 0
        with open(os.path.join(ROOT, a.dir, 'AUDIT.md'), 'w') as f:
            f.write('# Seeded changes vs. checks (written by tools/seeded_audit.py)\n\n')
            f.write('| seeded change | property | suite green with patch | demo fails with / passes without | own check (tier) | caught | first failing clause |\n|---|---|---|---|---|---|---|\n')
            for r in results:
                ck = r.get('checks', {}).get(r['property'], {})
                cl = (ck.get('clauses') or [''])[0].split(' detail=')[0].replace('|', '/')
                f.write(f"| {r['name']} | {r['property']} | {'yes' if r.get('suite_patched_rc') == 0 else r.get('suite_patched_rc')} | "
                        f"{'yes' if (r.get('demo_patched_rc') not in (0, None) and r.get('demo_clean_rc') == 0) else str((r.get('demo_patched_rc'), r.get('demo_clean_rc')))} | "
                        f"rc={ck.get('rc')} in {ck.get('wall_s')}s ({r.get('tier')}) | {'**yes**' if r.get('caught') else '**NO**'} | {cl[:120]} |\n")
                others = {c: v['rc'] for c, v in r.get('checks', {}).items() if c != r['property']}
                if others:
                    f.write(f"| | | | | also: {others} | | |\n")
    return 0


if __name__ == '__main__':
    sys.exit(main())
