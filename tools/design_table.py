#!/venv/bin/python
"""Regenerates the seeded-audit table inside DESIGN.md (between the AUDIT-TABLE markers) from seeded/AUDIT.json."""
import json, os, re
ROOT = os.path.dirname(os.path.dirname(os.path.abspath(__file__)))
res = json.load(open(os.path.join(ROOT, 'seeded', 'AUDIT.json')))['results']
rows = ['| seeded change | breaks | what it does (short) | needs | caught by its own quick check | first failing oracle clause |', '|---|---|---|---|---|---|']
n = c = 0
for r in sorted(res, key=lambda r: r['name']):
    meta = json.load(open(os.path.join(ROOT, 'seeded', r['name'], 'meta.json')))
    ck = r.get('checks', {}).get(r['property'], {})
    cl = (ck.get('clauses') or [''])[0].replace('clause=', '').split(' detail=')[0].replace('|', '/')[:110]
    short = re.sub(r'\s+', ' ', meta.get('summary', ''))[:150].replace('|', '/')
    needs = re.sub(r'\s+', ' ', meta.get('needs', ''))[:110].replace('|', '/')
    n += 1
    c += bool(r.get('caught'))
    rows.append(f"| {r['name'][:6]} | {r['property']} | {short} | {needs} | {'yes' if r.get('caught') else '**no**'} ({ck.get('wall_s')} s) | {cl} |")
rows.append('')
rows.append(f'**{c} of {n} caught** by the quick tier of the property they were written against (VERIF_SEED=1).')
p = os.path.join(ROOT, 'DESIGN.md')
s = open(p).read()
a, b = s.index('<!-- AUDIT-TABLE-BEGIN -->'), s.index('<!-- AUDIT-TABLE-END -->')
s = s[:a] + '<!-- AUDIT-TABLE-BEGIN -->\n' + '\n'.join(rows) + '\n' + s[b:]
open(p, 'w').write(s)
print(c, 'of', n)
