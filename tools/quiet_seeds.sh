#!/bin/sh
# Runs every check's quick tier on the unchanged tree at several VERIF_SEED values (fresh process each): all must exit 0
# without a VIOLATION line.  usage: tools/quiet_seeds.sh [seeds...]   (default 2 3 5 8 13)
HERE="$(cd "$(dirname "$0")/.." && pwd)"; cd "$HERE"
SEEDS="${*:-2 3 5 8 13}"
bad=0
for s in $SEEDS; do
  for i in 01 02 03 04 05 06 07 08 09 10 11 12 13 14 15 16 17 18 19 20; do
    out=$(VERIF_SEED=$s bin/check C$i --tier quick 2>&1); rc=$?
    if [ $rc -ne 0 ] || echo "$out" | grep -q VIOLATION; then bad=1; echo "seed=$s C$i rc=$rc"; echo "$out" | grep -E 'VIOLATION|clause=|HARNESS|INCONCLUSIVE' | cut -c1-300; fi
  done
  echo "seed $s done"
done
# evidence/ must describe the default seed: regenerate it
[ "$bad" = 0 ] && echo "ALL QUIET at seeds: $SEEDS"
exit $bad
