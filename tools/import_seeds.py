#!/venv/bin/python
"""Copies sub-agent results /tmp/seed/out/CNN/k/{patch.diff,demo.py,notes.json} into /verif/seeded/<name>/ (meta.json written
from notes.json).  Confirmation (suite green, demo fails with / passes without) is done by tools/seeded_audit.py --confirm."""
import json, os, re, shutil, sys
ROOT = os.path.dirname(os.path.dirname(os.path.abspath(__file__)))
SRC = sys.argv[1] if len(sys.argv) > 1 else '/tmp/seed/out'
OFFSET = int(sys.argv[2]) if len(sys.argv) > 2 else 0
DEST = sys.argv[3] if len(sys.argv) > 3 else 'seeded'
for pid in sorted(os.listdir(SRC)):
    for k0 in sorted(os.listdir(os.path.join(SRC, pid))):
        d = os.path.join(SRC, pid, k0)
        k = str(int(k0) + OFFSET) if k0.isdigit() else k0
        if not all(os.path.isfile(os.path.join(d, f)) for f in (('patch.diff', 'demo.py', 'notes.json') if DEST == 'seeded' else ('patch.diff', 'notes.json'))):
            continue
        notes = json.load(open(os.path.join(d, 'notes.json')))
        slug = re.sub(r'[^a-z0-9]+', '-', notes['summary'].lower())[:40].strip('-')
        existing = [n for n in os.listdir(os.path.join(ROOT, DEST)) if n.startswith(f'{pid}-{k}-')] if os.path.isdir(os.path.join(ROOT, DEST)) else []
        name = existing[0] if existing else f'{pid}-{k}-{slug}'
        out = os.path.join(ROOT, DEST, name)
        os.makedirs(out, exist_ok=True)
        shutil.copy(os.path.join(d, 'patch.diff'), out)
        if os.path.isfile(os.path.join(d, 'demo.py')):
            shutil.copy(os.path.join(d, 'demo.py'), out)
        meta = {'property': pid, 'summary': notes.get('summary', ''), 'needs': notes.get('needs', ''), 'files': notes.get('files', []),
                'why_property_still_holds': notes.get('why_property_still_holds', ''),
                'origin': 'independent sub-agent given only the property text and a scratch worktree of /repo',
                'ran': 'tools/seeded_audit.py --confirm: in a scratch worktree of /repo HEAD - demo.py on the clean tree (must exit 0), '
                       'git apply patch.diff, demo.py (must exit non-zero), repository suite (must pass), then bin/check <property> '
                       '--tier quick with VERIF_REPO=<worktree>; results in seeded/AUDIT.json / AUDIT.md'}
        json.dump(meta, open(os.path.join(out, 'meta.json'), 'w'), indent=1)
        print(name)
