#!/venv/bin/python
"""Validates MANIFEST.json and every evidence/*.json against the schemas in /root/.vp (exit 1 on the first error)."""
import glob, json, os, sys
ROOT = os.path.dirname(os.path.dirname(os.path.abspath(__file__)))
sys.path.insert(0, os.path.join(ROOT, '.deps'))
import jsonschema  # noqa: E402
bad = 0
m = json.load(open(os.path.join(ROOT, 'MANIFEST.json')))
jsonschema.validate(m, json.load(open('/root/.vp/MANIFEST.schema.json')))
es = json.load(open('/root/.vp/EVIDENCE.schema.json'))
claimed = {c['property_id'] for c in m['checks']}
props = [json.loads(l)['id'] for l in open(os.path.join(ROOT, 'properties.jsonl'))]
na = {x['property_id'] if isinstance(x, dict) else x for x in m.get('not_applicable', [])}
for p in props:
    if p not in claimed and p not in na:
        print('property neither claimed nor not_applicable:', p); bad = 1
for c in m['checks']:
    f = os.path.join(ROOT, c['evidence_file'])
    try:
        e = json.load(open(f))
        jsonschema.validate(e, es)
        if e['level'] != c['level_claimed']['category']:
            print('level mismatch', c['property_id'], e['level'], c['level_claimed']['category']); bad = 1
    except Exception as ex:  # noqa
        print('EVIDENCE INVALID', f, repr(ex)[:300]); bad = 1
print('manifest + evidence', 'INVALID' if bad else 'ok', len(m['checks']), 'checks')
sys.exit(bad)
