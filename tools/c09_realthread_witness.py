#!/venv/bin/python
"""Real-thread witness for F-C09-1 (no simulation): the unmodified Server and four reference-style clients over
loopback TCP; the only intervention is that the main thread's Event.clear() is preceded by a short sleep
(a legal delay of one thread).  On the unfixed tree the session hangs (reported after a watchdog), on the fixed
tree it completes.   usage: c09_realthread_witness.py [repo]   exit 0 = completed, 3 = hung"""
import os, pathlib, socket, sys, tempfile, threading, time
repo = sys.argv[1] if len(sys.argv) > 1 else os.environ.get('VERIF_REPO', '/repo')
sys.path.insert(0, repo)
import logging; logging.disable(logging.CRITICAL)
from bridge_env.network_bridge import server as S
from bridge_env.data_handler.abstract_classes import BoardSetting
from bridge_env import Hands, Player, Vul

main_ident = [None]
RealEvent = threading.Event


class SlowClearEvent(RealEvent):
    def clear(self):
        if threading.get_ident() == main_ident[0]:
            time.sleep(0.05)          # the main thread is delayed just before it re-arms the barrier
        super().clear()


if not os.environ.get("NODELAY"):
    S.Event = SlowClearEvent
S.time = type('T', (), {'sleep': staticmethod(lambda s: time.sleep(0.001))})()
FORMAL = ['North', 'East', 'South', 'West']


def client(seat, port, nboards, done):
    me = FORMAL[seat]
    s = socket.create_connection(('127.0.0.1', port)); f = s.makefile('rwb', buffering=0)
    def send(t): f.write(t.encode() + b'\r\n')
    def recv():
        line = f.readline()
        if not line: raise EOFError
        return line.decode().rstrip('\r\n')
    send(f'Connecting "{"ns" if seat % 2 == 0 else "ew"}" as {me} using protocol version 18'); recv()
    send(f'{me} ready for teams'); recv(); send(f'{me} ready to start'); line = recv()
    for b in range(nboards):
        send(f'{me} ready for deal'); recv(); send(f'{me} ready for cards'); recv()
        for i in range(4):                         # dealer is North; everybody passes
            if i == seat: send(f'{me} passes')
            else: send(f"{me} ready for {FORMAL[i]}'s bid"); recv()
        line = recv()
    done[seat] = line == 'End of session'


def main():
    port = 20000 + os.getpid() % 20000
    n = 3
    boards = [BoardSetting(hands=Hands.generate_random_hands(), dealer=Player.N, vul=Vul.NONE, board_id=str(i)) for i in range(n)]
    out = tempfile.mktemp(suffix='.json')
    done = [False] * 4
    def run_server():
        main_ident[0] = threading.get_ident()
        with S.Server('127.0.0.1', port, pathlib.Path(out), boards) as srv:
            srv.run()
        done.append('server')
    st = threading.Thread(target=run_server, daemon=True); st.start()
    time.sleep(0.2)
    cs = [threading.Thread(target=client, args=(i, port, n, done), daemon=True) for i in range(4)]
    for c in cs: c.start(); time.sleep(0.05)
    st.join(timeout=20)
    ok = (not st.is_alive()) and all(done[:4])
    print('completed' if ok else 'HUNG: server alive=%s clients ended=%s' % (st.is_alive(), done[:4]))
    try: os.unlink(out)
    except OSError: pass
    os._exit(0 if ok else 3)


main()
